"""Independent reference key schedules (RFC 6101, 2246, 4346, 5246, 8446, 9001).

Written from the RFCs with hashlib/hmac only; does not import tlexport nor
cryptography's KDF classes.
"""
import hashlib
import hmac as _hmac


def _h(name, data):
    return hashlib.new(name, data).digest()


def _hm(name, key, data):
    return _hmac.new(key, data, name).digest()


# ---------------------------------------------------------------- SSL 3.0
def ssl3_prf(secret, seed, n):
    out = b""
    i = 0
    while len(out) < n:
        i += 1
        label = bytes([ord("A") + i - 1]) * i
        out += _h("md5", secret + _h("sha1", label + secret + seed))
    return out[:n]


def ssl3_master(pre, cr, sr):
    return ssl3_prf(pre, cr + sr, 48)


def ssl3_key_block(master, cr, sr, n):
    return ssl3_prf(master, sr + cr, n)


# ---------------------------------------------------------------- TLS 1.0/1.1
def p_hash(name, secret, seed, n):
    out = b""
    a = seed
    while len(out) < n:
        a = _hm(name, secret, a)
        out += _hm(name, secret, a + seed)
    return out[:n]


def tls10_prf(secret, label, seed, n):
    half = (len(secret) + 1) // 2
    s1, s2 = secret[:half], secret[len(secret) - half:]
    a = p_hash("md5", s1, label + seed, n)
    b = p_hash("sha1", s2, label + seed, n)
    return bytes(x ^ y for x, y in zip(a, b))


def tls12_prf(hashname, secret, label, seed, n):
    return p_hash(hashname, secret, label + seed, n)


def key_block(version, prf_hash, master, cr, sr, n):
    """version: 0x0300..0x0303"""
    if version == 0x0300:
        return ssl3_key_block(master, cr, sr, n)
    if version in (0x0301, 0x0302):
        return tls10_prf(master, b"key expansion", sr + cr, n)
    if version == 0x0303:
        return tls12_prf(prf_hash, master, b"key expansion", sr + cr, n)
    raise ValueError(version)


def split_key_block(kb, mac_len, key_len, iv_len):
    o = 0
    out = {}
    for name, ln in (("client_mac", mac_len), ("server_mac", mac_len),
                     ("client_key", key_len), ("server_key", key_len),
                     ("client_iv", iv_len), ("server_iv", iv_len)):
        out[name] = kb[o:o + ln]
        o += ln
    return out


# ---------------------------------------------------------------- TLS 1.3 / QUIC
def hkdf_extract(hashname, salt, ikm):
    if not salt:
        salt = bytes(hashlib.new(hashname).digest_size)
    return _hm(hashname, salt, ikm)


def hkdf_expand(hashname, prk, info, n):
    out = b""
    t = b""
    i = 0
    while len(out) < n:
        i += 1
        t = _hm(hashname, prk, t + info + bytes([i]))
        out += t
    return out[:n]


def hkdf_expand_label(hashname, secret, label, context, n):
    full = b"tls13 " + label
    info = n.to_bytes(2, "big") + bytes([len(full)]) + full + bytes([len(context)]) + context
    return hkdf_expand(hashname, secret, info, n)


def tls13_traffic_keys(hashname, secret, key_len):
    return (hkdf_expand_label(hashname, secret, b"key", b"", key_len),
            hkdf_expand_label(hashname, secret, b"iv", b"", 12))


QUIC_V1_SALT = bytes.fromhex("38762cf7f55934b34d179ae6a4c80cadccbb7f0a")


def quic_keys(hashname, secret, key_len):
    return {"key": hkdf_expand_label(hashname, secret, b"quic key", b"", key_len),
            "iv": hkdf_expand_label(hashname, secret, b"quic iv", b"", 12),
            "hp": hkdf_expand_label(hashname, secret, b"quic hp", b"", key_len)}


def quic_initial_secrets(odcid):
    init = hkdf_extract("sha256", QUIC_V1_SALT, odcid)
    return (hkdf_expand_label("sha256", init, b"client in", b"", 32),
            hkdf_expand_label("sha256", init, b"server in", b"", 32))


def quic_next_secret(hashname, secret):
    n = hashlib.new(hashname).digest_size
    return hkdf_expand_label(hashname, secret, b"quic ku", b"", n)


def selftest():
    # RFC 9001 Appendix A.1
    c, s = quic_initial_secrets(bytes.fromhex("8394c8f03e515708"))
    assert c.hex() == "c00cf151ca5be075ed0ebfb5c80323c42d6b7db67881289af4008f1f6c357aea", c.hex()
    assert s.hex() == "3c199828fd139efd216c155ad844cc81fb82fa8d7446fa7d78be803acdda951b", s.hex()
    k = quic_keys("sha256", c, 16)
    assert k["key"].hex() == "1f369613dd76d5467730efcbe3b1a22d"
    assert k["iv"].hex() == "fa044b2f42a3fd3b46fb255c"
    assert k["hp"].hex() == "9f50449e04a0e810283a1e9933adedd2"
    # RFC 9001 A.5 chacha key update
    sec = bytes.fromhex("9ac312a7f877468ebe69422748ad00a15443f18203a07d6060f688f30f21632b")
    assert quic_next_secret("sha256", sec).hex() == "1223504755036d556342ee9361d253421a826c9ecdf3c7148684b36b714881f9"
    # RFC 5869 A.1
    prk = hkdf_extract("sha256", bytes.fromhex("000102030405060708090a0b0c"), bytes([0x0b] * 22))
    assert prk.hex() == "077709362c2e32df0ddc3f0dc47bba6390b6c73bb50f9c3122ec844ad7c2b3e5"
    okm = hkdf_expand("sha256", prk, bytes.fromhex("f0f1f2f3f4f5f6f7f8f9"), 42)
    assert okm.hex().startswith("3cb25f25faacd57a90434f64d0362f2a2d2d0a90cf1a5a4c5db02d56ecc4c5bf")
    return True


if __name__ == "__main__":
    print(selftest())
