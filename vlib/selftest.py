"""Self-tests of the machinery's own trusted parts (run by tools/setup.py and cheap enough to run at every setup).

* strict output oracle: must accept a well-formed conversation written by netsynth (a different code path: writer vs reader) and must reject each of
  a list of deliberately malformed files with the expected reason;
* reference senders: records produced by refrec.Writer are decrypted by an independent minimal receiver written here (not TLExport), and the QUIC packet
  protection round-trips through an independent unprotect, so that a sender bug cannot hide behind a matching TLExport bug.
"""
import random
import struct

from . import netsynth as ns, outparse, quicsynth, refkdf, suites, tcpcap, tlssynth


def _conversation(v6=False, gap=False, bad_csum=False, no_handshake=False, bad_ack=False, second_handshake=False):
    ep = tcpcap.default_ep(1, v6)
    segs = []
    if not no_handshake:
        segs += [tcpcap.Seg("c", 0, 0, 0x02, b""), tcpcap.Seg("s", 0, 1, 0x12, b""), tcpcap.Seg("c", 1, 1, 0x10, b"")]
    if second_handshake:
        segs += [tcpcap.Seg("c", 0, 0, 0x02, b""), tcpcap.Seg("s", 0, 1, 0x12, b""), tcpcap.Seg("c", 1, 1, 0x10, b"")]
    segs += [tcpcap.Seg("c", 1, 1, 0x18, b"hello"), tcpcap.Seg("s", 1, 6 if not bad_ack else 7, 0x10, b""),
             tcpcap.Seg("s", 1, 6, 0x18, b"world!"), tcpcap.Seg("c", 6 + (1 if gap else 0), 7, 0x18, b"more")]
    items = [("pkt", 1700000000000000 + i, tcpcap.frame(ep, s, bad_csum=(bad_csum and i == 3))) for i, s in enumerate(segs)]
    return ns.pcapng(items), ep


def output_oracle():
    good, ep = _conversation()
    a = outparse.Analysis(good)
    assert not a.errors, a.errors
    assert a.tcp[(ep.cip, ep.cport, ep.sip, ep.sport)] == b"hellomore" and a.tcp[(ep.sip, ep.sport, ep.cip, ep.cport)] == b"world!"
    good6, _ = _conversation(v6=True)
    assert not outparse.Analysis(good6).errors
    for be in (False,):
        assert not outparse.Analysis(ns.pcapng([("pkt", 5, tcpcap.frame(ep, tcpcap.Seg("c", 0, 0, 2, b"")))], le=be)).errors
    rejects = {
        "sequence gap": _conversation(gap=True)[0],
        "wrong TCP checksum": _conversation(bad_csum=True)[0],
        "data before SYN": _conversation(no_handshake=True)[0],
        "inconsistent ack": _conversation(bad_ack=True)[0],
        "handshake repeated inside a conversation": _conversation(second_handshake=True)[0],
        "truncated block": good[:-7],
        "bad trailing length": good[:-4] + struct.pack("<I", 12),
        "1-byte frame": ns.pcapng([("pkt", 0, b"\x00")]),
        "caplen beyond snaplen": ns.pcapng([("pkt", 0, tcpcap.frame(ep, tcpcap.Seg("c", 0, 0, 2, b"")))], snaplen=20),
        "not a pcapng": b"\xd4\xc3\xb2\xa1" + bytes(40),
    }
    for why, buf in rejects.items():
        assert outparse.Analysis(buf).errors, f"strict oracle accepted a file with: {why}"
    # IPv4 header checksum / length fields
    fr = bytearray(tcpcap.frame(ep, tcpcap.Seg("c", 0, 0, 2, b"")))
    fr[14 + 10] ^= 1
    assert outparse.Analysis(ns.pcapng([("pkt", 0, bytes(fr))])).errors
    fr = bytearray(tcpcap.frame(ep, tcpcap.Seg("c", 0, 0, 2, b"")))
    fr[14 + 3] += 1
    assert outparse.Analysis(ns.pcapng([("pkt", 0, bytes(fr))])).errors
    print(f"  strict output oracle: accepts 3 well-formed files, rejects {len(rejects) + 2} malformed ones")


def sender_roundtrip():
    """independent receiver for the reference record protection (AEAD and CBC paths) and the QUIC packet protection"""
    import hmac
    from cryptography.hazmat.primitives.ciphers import Cipher
    from cryptography.hazmat.primitives.ciphers.algorithms import AES
    from cryptography.hazmat.primitives.ciphers.modes import CBC
    from cryptography.hazmat.primitives.ciphers.aead import AESGCM
    rng = random.Random(7)
    n = 0
    # TLS 1.2 AES-128-GCM and TLS 1.3 AES-128-GCM, TLS 1.0 AES-CBC-SHA: decrypt the sender's application records with the reference keys
    for v, code in ((0x0303, 0xC02F), (0x0304, 0x1301), (0x0301, 0x002F), (0x0302, 0x002F)):
        spec = tlssynth.Spec(version=v, suite=code, app=[("c", b"abc" * 5), ("s", b""), ("c", rng.randbytes(300)), ("s", rng.randbytes(17))], pad13_max=9)
        conn = tlssynth.build_conn(spec, rng)
        p = conn.params
        seq = {"c": 0, "s": 0}
        resid = {}
        for e in conn.events:
            side = "client" if e.dir == "c" else "server"
            if v == 0x0304:
                if e.wire[0] != 0x17:
                    continue
                phase = "hs" if e.kind == "ehs" and not _after_fin(conn, e) else "app"
                key, iv = conn.ref_keys[f"{side}_{phase}"]
                nonce = bytes(a ^ b for a, b in zip(iv, seq[e.dir].to_bytes(12, "big")))
                try:
                    inner = AESGCM(key).decrypt(nonce, e.wire[5:], e.wire[:5])
                except Exception:
                    # key switch: handshake -> application resets the sequence number
                    seq[e.dir] = 0
                    key, iv = conn.ref_keys[f"{side}_app"]
                    inner = AESGCM(key).decrypt(bytes(a ^ b for a, b in zip(iv, (0).to_bytes(12, "big"))), e.wire[5:], e.wire[:5])
                seq[e.dir] += 1
                inner = inner.rstrip(b"\x00")
                if e.kind == "app":
                    assert inner[-1] == 23 and inner[:-1] == e.plain
                    n += 1
            elif p["aead"]:
                if e.kind not in ("ehs", "app"):
                    continue
                key, salt = conn.ref_keys[f"{side}_key"], conn.ref_keys[f"{side}_iv"]
                body = e.wire[5:]
                aad = seq[e.dir].to_bytes(8, "big") + e.wire[:3] + (len(body) - 24).to_bytes(2, "big")
                pt = AESGCM(key).decrypt(salt + body[:8], body[8:], aad)
                seq[e.dir] += 1
                if e.kind == "app":
                    assert pt == e.plain
                    n += 1
            else:
                if e.kind not in ("ehs", "app"):
                    continue
                key, mac = conn.ref_keys[f"{side}_key"], conn.ref_keys[f"{side}_mac"]
                body = e.wire[5:]
                if v == 0x0301:
                    iv = resid.get(e.dir, conn.ref_keys[f"{side}_iv"])
                    ct = body
                else:
                    iv, ct = body[:16], body[16:]
                d = Cipher(AES(key), CBC(iv)).decryptor()
                pt = d.update(ct) + d.finalize()
                resid[e.dir] = ct[-16:]
                pad = pt[-1]
                assert pt[-pad - 1:] == bytes([pad]) * (pad + 1)
                pt = pt[:-pad - 1]
                data, tag = pt[:-20], pt[-20:]
                want = hmac.new(mac, seq[e.dir].to_bytes(8, "big") + e.wire[:3] + len(data).to_bytes(2, "big") + data, "sha1").digest()
                assert tag == want, "reference sender's own MAC does not verify"
                seq[e.dir] += 1
                if e.kind == "app":
                    assert data == e.plain
                    n += 1
    # QUIC: unprotect the sender's first client Initial with keys from the RFC 9001 schedule
    s = quicsynth.QSpec(app=[("c", [[("stream", 0, b"ping", {})]])])
    qc = quicsynth.build_qconn(s, rng)
    pkt = qc.dgrams[0].data
    ci, _ = refkdf.quic_initial_secrets(qc.info["odcid"])
    k = quicsynth.Keys("sha256", ci, 16, "GCM")
    dl = pkt[5]
    sl = pkt[6 + dl]
    off = 7 + dl + sl
    tl = pkt[off]
    assert tl < 64
    off += 1 + tl
    ln = int.from_bytes(pkt[off:off + 2], "big") & 0x3FFF
    pn_off = off + 2
    mask = k.mask(pkt[pn_off + 4:pn_off + 20])
    first = pkt[0] ^ (mask[0] & 0x0F)
    pnl = (first & 3) + 1
    pn = bytes(a ^ b for a, b in zip(pkt[pn_off:pn_off + pnl], mask[1:1 + pnl]))
    hdr = bytes([first]) + pkt[1:pn_off] + pn
    nonce = bytes(a ^ b for a, b in zip(k.iv, int.from_bytes(pn, "big").to_bytes(12, "big")))
    pt = AESGCM(k.key).decrypt(nonce, pkt[pn_off + pnl:pn_off + ln], hdr)
    assert pt[0] == 0x06, "first frame of the client Initial is not CRYPTO"
    print(f"  reference senders: {n} TLS application records and a QUIC Initial verified by an independent receiver")


def _after_fin(conn, e):
    return False


def framing_against_independent_decoders():
    """what the framers write is what other people's decoders read: encapsulated frames (VLAN tags, IPv4 options, IPv6 extension headers) through dpkt's
    Ethernet/IP decoders, captures of several interfaces / sections through scapy's pcapng reader (section by section: scapy keeps numbering interfaces across
    sections, the specification restarts at 0)"""
    import io
    import dpkt
    import logging
    logging.getLogger("scapy").setLevel(logging.ERROR)
    from scapy.utils import RawPcapNgReader
    rng = random.Random(20)
    nf = 0
    for v6 in (False, True):
        for _ in range(150):
            enc = ns.random_encap(rng, v6)
            src, dst = (rng.randbytes(16), rng.randbytes(16)) if v6 else (rng.randbytes(4), rng.randbytes(4))
            pl = rng.randbytes(rng.randrange(0, 40))
            for proto in (6, 17):
                l4 = ns.tcp_segment(src, dst, 1234, 443, 5, 6, 0x18, pl) if proto == 6 else ns.udp_datagram(src, dst, 1234, 443, pl)
                fr = ns.eth_frame(b"\x02" * 6, b"\x04" * 6, ns.ip_packet(src, dst, proto, l4, opts=enc.opts, ext=enc.ext), vlan=enc.vlan)
                t = dpkt.ethernet.Ethernet(fr).data.data
                assert isinstance(t, (dpkt.tcp.TCP, dpkt.udp.UDP)) and t.data == pl and t.sport == 1234, enc.describe()
                l3, l4o, end, pr, is6 = ns.locate(fr)
                assert fr[l4o:end] == l4 and pr == proto and end == len(fr) and is6 == v6, enc.describe()
                nf += 1
    pk = [("pkt", 1700000000000000 + i * 1000, bytes([i]) * 60) for i in range(14)]
    want = [(bytes([i]), 1700000000000000 + i * 1000) for i in range(14)]
    nc = 0
    for le in (True, False):
        for secs in (1, 2, 3):
            for late in (False, True):
                cap = ns.pcapng_multi(pk, [(None, None), (9, None), (3, None)], lambda n: n * 7 // 3, le=le, sections=secs, late_idb=late)
                magic = b"\x0a\x0d\x0d\x0a"
                cuts = [i for i in range(0, len(cap), 4) if cap[i:i + 4] == magic and cap[i + 8:i + 12] in (b"\x4d\x3c\x2b\x1a", b"\x1a\x2b\x3c\x4d")] + [len(cap)]
                assert len(cuts) == secs + 1
                got = []
                for a, b in zip(cuts, cuts[1:]):
                    for data, meta in RawPcapNgReader(io.BytesIO(cap[a:b])):
                        got.append((data[:1], ((meta.tshigh << 32) | meta.tslow) * 1000000 // meta.tsresol))
                assert got == want, (le, secs, late, got[:4])
                nc += 1
    print(f"  framers: {nf} encapsulated frames decoded by dpkt, {nc} multi-interface / multi-section captures read back by scapy's pcapng reader")


def run():
    output_oracle()
    sender_roundtrip()
    framing_against_independent_decoders()
