"""In-process monitors, installed in the forked child by patching attributes of the real classes/modules in place.

Each monitor appends JSON lines to the event file of the run (offline checking happens in the worker, against the sender's ground
truth) and counts its evaluations: zero evaluations means *inconclusive* for what that monitor decides, never *held*.
No repository edit is needed: every observation point is a Python attribute reachable from outside.
"""
import json
import os
import sys

from . import runner


def _hex(x):
    if x is None:
        return None
    try:
        return bytes(x).hex()
    except Exception:
        return repr(x)


class EventLog:
    def __init__(self, d):
        self.f = open(os.path.join(d, "_events"), "a", buffering=1 << 16)
        runner.CHILD_AT_EXIT.append(self.f.flush)

    def emit(self, **kw):
        self.f.write(json.dumps(kw) + "\n")


def parse_events(raw):
    out = []
    for line in (raw or b"").splitlines():
        try:
            out.append(json.loads(line))
        except ValueError:
            pass
    return out


def rebind_everywhere(orig, new):
    """module-level functions imported by name (from x import f) are rebound in every tlexport module that holds the original object"""
    n = 0
    for name, mod in list(sys.modules.items()):
        if not name.startswith("tlexport") or mod is None:
            continue
        for k, v in list(vars(mod).items()):
            if v is orig:
                setattr(mod, k, new)
                n += 1
    return n


SEQ_BRANCHES = ("decrypt_tls13_aead", "decrypt_tls13_stream_cipher", "decrypt_tls12_aead", "decrypt_tls12_chacha20")
def _dec_keys(x):
    """key material of a QUIC decryptor object as far as it can be observed: the four attributes, else the constructor's key list it keeps, else nothing
    (an attribute that does not exist is unobservable - it is not a key that is None)"""
    names = ("server_key", "server_iv", "client_key", "client_iv")
    if all(hasattr(x, a) for a in names):
        return {a: _hex(getattr(x, a)) for a in names}
    ks = getattr(x, "keys", None)
    if isinstance(ks, (list, tuple)) and len(ks) >= 4 and all(isinstance(k, (bytes, bytearray)) for k in ks[:4]):
        return {a: _hex(k) for a, k in zip(names, ks[:4])}
    return {"unobservable": True}


KEY_ATTRS = ("client_key", "server_key", "client_iv", "server_iv", "client_mac", "server_mac",
             "client_handshake_key", "server_handshake_key", "client_handshake_iv", "server_handshake_iv",
             "client_application_key", "server_application_key", "client_application_iv", "server_application_iv")


class TlsStateMonitor:
    """Hooks tlexport.decryptor.Decryptor: __init__ (installed key material), decrypt (per-direction state before/after), update_keys."""

    def __init__(self, keys=True):
        self.keys = keys

    def install(self, d):
        try:
            import tlexport.decryptor as D
            cls = D.Decryptor
            log = EventLog(d)
            orig_init, orig_decrypt, orig_update = cls.__init__, cls.decrypt, cls.update_keys
        except Exception as e:   # refactored away: the monitor is unavailable, the end-to-end oracle still decides
            with open(os.path.join(d, "_events"), "a") as f:
                f.write(json.dumps({"ev": "monitor-unavailable", "why": repr(e)}) + "\n")
            return
        ids = {}

        def oid(o):
            if id(o) not in ids:
                ids[id(o)] = ids.get("n", 0)
                ids["n"] = ids.get("n", 0) + 1
            return ids[id(o)]

        def snap(o, isserver):
            return {"seq": getattr(o, "server_seq" if isserver else "client_seq", None),
                    "lb": _hex(getattr(o, "last_block_server" if isserver else "last_block_client", None)),
                    "key": _hex(getattr(o, "server_key" if isserver else "client_key", None))[:16] if getattr(o, "server_key", None) is not None else None}

        def init(self, *a, **k):
            orig_init(self, *a, **k)
            # a new number per construction: id() values are reused once an object is freed (a later run() in the same process, a later session), and two
            # decryptors must never be taken for one
            ids[id(self)] = ids.get("n", 0)
            ids["n"] = ids.get("n", 0) + 1
            ev = {"ev": "init", "o": oid(self), "version": getattr(getattr(self, "tls_version", None), "name", None),
                  "bulk": getattr(getattr(self, "bulk_alg", None), "__name__", None), "etm": getattr(self, "encrypt_then_mac", None),
                  "mac_len": getattr(self, "mac_length", None), "block": getattr(self, "block_length", None), "tag": getattr(self, "tag_length", None),
                  "key_len": getattr(self, "key_length", None)}
            for kname in KEY_ATTRS:
                if hasattr(self, kname):
                    ev[kname] = _hex(getattr(self, kname))
            log.emit(**ev)

        def decrypt(self, record, isserver):
            before = snap(self, isserver)
            other = snap(self, not isserver)
            try:
                r = orig_decrypt(self, record, isserver)
            except Exception as e:
                log.emit(ev="decrypt", o=oid(self), srv=bool(isserver), ok=False, exc=type(e).__name__, b=before, a=snap(self, isserver),
                         ob=other, oa=snap(self, not isserver), n=len(record.binary), t=record.record_type)
                raise
            log.emit(ev="decrypt", o=oid(self), srv=bool(isserver), ok=True, b=before, a=snap(self, isserver), ob=other, oa=snap(self, not isserver),
                     n=len(record.binary), t=record.record_type, out=None if r is None else len(r), tail=_hex(bytes(record.binary)[-64:]))
            return r

        def update_keys(self, isserver):
            orig_update(self, isserver)
            log.emit(ev="update_keys", o=oid(self), srv=bool(isserver), a=snap(self, isserver))

        cls.__init__, cls.decrypt, cls.update_keys = init, decrypt, update_keys

    def verdict(self, raw_events, conn):
        """offline checker over the event log -> (messages, {monitor: evaluations})"""
        evs = parse_events(raw_events)
        msgs = []
        cnt = {"decryptor.init": 0, "decryptor.decrypt": 0, "decryptor.seq_invariant": 0, "decryptor.residue_invariant": 0}
        p = conn.params
        v = conn.spec.version
        inits = {}
        expect_zero = set()
        for e in evs:
            if e["ev"] == "monitor-unavailable":
                return [], {"decryptor.monitor_unavailable": 1}
            if e["ev"] == "init":
                cnt["decryptor.init"] += 1
                inits[e["o"]] = e
            elif e["ev"] == "update_keys":
                if e["a"]["seq"] is not None and e["a"]["seq"] != 0:        # None: the attribute moved (refactoring) - unobservable, not wrong
                    msgs.append(f"monitor: sequence number is {e['a']['seq']} after the handshake->application key switch (must restart at 0)")
                expect_zero.add((e["o"], e["srv"]))
            elif e["ev"] == "decrypt":
                cnt["decryptor.decrypt"] += 1
                b, a = e["b"], e["a"]
                if e["ob"] != e["oa"]:
                    msgs.append(f"monitor: decrypting a {'server' if e['srv'] else 'client'} record changed the other direction's cipher state {e['ob']} -> {e['oa']}")
                aead_seq = p["aead"]
                if aead_seq and b["seq"] is not None:
                    cnt["decryptor.seq_invariant"] += 1
                    want = b["seq"] + 1 if e["ok"] else b["seq"]
                    if e["ok"] and a["seq"] != want and not (a["seq"] == 0 and b["key"] != a["key"]):
                        msgs.append(f"monitor: AEAD sequence number went {b['seq']} -> {a['seq']} on a successful decrypt (must be +1)")
                    if not e["ok"] and a["seq"] != b["seq"]:
                        msgs.append(f"monitor: AEAD sequence number changed {b['seq']} -> {a['seq']} although decrypt raised {e.get('exc')}")
                if e["ok"] and p["mode"] == "CBC" and v in (0x0300, 0x0301) and a["lb"] is not None:
                    cnt["decryptor.residue_invariant"] += 1
                    bs = p["block"]
                    tail = bytes.fromhex(e["tail"])
                    ini = inits.get(e["o"], {})
                    if ini.get("etm"):
                        tail = tail[:-p["mac_len"]] if len(tail) > p["mac_len"] else b""
                    want = tail[-bs:].hex()
                    if want and a["lb"] != want:
                        msgs.append(f"monitor: CBC residue after a record is {a['lb']}, last ciphertext block of that record is {want}")
        return msgs[:3], cnt


class QuicMonitor:
    """Hooks on the real QUIC objects: QuicSession.get_full_packet_number (C16), quic_frame.parse_frames as bound in every tlexport
    module (C17), key installation points set_initial_decryptor / set_tls_decryptors / check_key_epoch (C15)."""

    def install(self, d):
        try:
            import tlexport.quic.quic_session as QS
            import tlexport.quic.quic_frame as QF
            cls = QS.QuicSession
            log = EventLog(d)
            o_pn, o_init, o_tls, o_epoch = cls.get_full_packet_number, cls.set_initial_decryptor, cls.set_tls_decryptors, cls.check_key_epoch
            o_parse = QF.parse_frames
        except Exception as e:
            with open(os.path.join(d, "_events"), "a") as f:
                f.write(json.dumps({"ev": "monitor-unavailable", "why": repr(e)}) + "\n")
            return
        ids = {}
        keep = []       # observed objects stay referenced: id() values are reused once an object is freed, and two sessions must never be taken for one

        def oid(o):
            if id(o) not in ids:
                keep.append(o)
            return ids.setdefault(id(o), len(ids))

        def pn(self, quic_packet):
            r = o_pn(self, quic_packet)
            log.emit(ev="pn", o=oid(self), srv=bool(quic_packet.isserver), type=str(getattr(quic_packet.packet_type, "name", quic_packet.packet_type)),
                     trunc=_hex(quic_packet.packet_num), full=int.from_bytes(bytes(r), "big"))
            return r

        def parse(payload, src_packet, *a, **k):
            r = o_parse(payload, src_packet, *a, **k)
            fr = []
            for f in r:
                item = {"t": f.frame_type if isinstance(f.frame_type, int) else -1, "l": f.length}
                if hasattr(f, "stream_data") and f.stream_data is not None:
                    item["sd"] = len(f.stream_data)
                    item["sid"] = getattr(f, "stream_id", None)
                    item["off"] = getattr(f, "offset", None)
                if hasattr(f, "crypto"):
                    item["cd"] = len(f.crypto)
                    item["off"] = getattr(f, "offset", None)
                fr.append(item)
            log.emit(ev="frames", n=len(payload), fr=fr)
            return r

        def dump_keys(self, where):
            ks = {k: _hex(v) for k, v in (getattr(self, "keys", {}) or {}).items() if v is not None}
            decs = {}
            for name, dec in (getattr(self, "decryptors", {}) or {}).items():
                lst = dec if isinstance(dec, list) else [dec]
                decs[name] = [_dec_keys(x) for x in lst]
            log.emit(ev="qkeys", o=oid(self), where=where, keys=ks, decs=decs, epoch_c=getattr(self, "epoch_client", None), epoch_s=getattr(self, "epoch_server", None))

        def set_init(self, dcid, chacha20, *a, **k):
            r = o_init(self, dcid, chacha20, *a, **k)
            log.emit(ev="qinit", o=oid(self), dcid=_hex(dcid), chacha=bool(chacha20))
            dump_keys(self, "initial")
            return r

        def set_tls(self, client_random, ciphersuite, *a, **k):
            r = o_tls(self, client_random, ciphersuite, *a, **k)
            log.emit(ev="qtls", o=oid(self), suite=_hex(ciphersuite))
            dump_keys(self, "tls")
            return r

        def epoch(self, key_phase_bit, isserver, *a, **k):
            n0 = len(self.decryptors.get("Application", [])) if isinstance(getattr(self, "decryptors", None), dict) else -1
            r = o_epoch(self, key_phase_bit, isserver, *a, **k)
            n1 = len(self.decryptors.get("Application", [])) if isinstance(getattr(self, "decryptors", None), dict) else -1
            if n1 != n0:
                dump_keys(self, "keyupdate")
            return r

        cls.get_full_packet_number, cls.set_initial_decryptor, cls.set_tls_decryptors, cls.check_key_epoch = pn, set_init, set_tls, epoch
        rebind_everywhere(o_parse, parse)

    def verdict(self, raw_events, qconn):
        from . import qframes
        evs = parse_events(raw_events)
        cnt = {"quic.pn_compared": 0, "quic.frames_compared": 0, "quic.key_events": 0}
        if any(e["ev"] == "monitor-unavailable" for e in evs):
            return [], {"quic.monitor_unavailable": 1}
        seen = []
        for e in evs:
            if e["ev"] == "pn":
                seen.append({"pn": e})
            elif e["ev"] == "frames" and seen and "frames" not in seen[-1]:
                seen[-1]["frames"] = e
            elif e["ev"] == "qkeys":
                cnt["quic.key_events"] += 1
        sent = [(g.dir, p) for g in qconn.dgrams for p in g.packets if p.space != "retry"]
        msgs = []
        if len(seen) != len(sent):
            msgs.append(f"monitor: the session looked at {len(seen)} packets, the endpoints sent {len(sent)}")
            return msgs, cnt
        for i, (s, (d, p)) in enumerate(zip(seen, sent)):
            cnt["quic.pn_compared"] += 1
            if s["pn"]["full"] != p.pn:
                msgs.append(f"monitor: packet {i} ({d}, {p.space}): packet number reconstructed as {s['pn']['full']} from {s['pn']['trunc']}, sent {p.pn} in {p.pn_len} bytes")
                break
            if "frames" in s:
                cnt["quic.frames_compared"] += 1
                want = [t["kind"] for t in qframes.normalise(p.frames)]
                got = [qframes.KIND_OF_TYPE.get(f["t"], f"?{f['t']}") for f in s["frames"]["fr"]]
                if want != got:
                    msgs.append(f"monitor: packet {i} ({d}, {p.space}, pn {p.pn}): frames parsed as {got[:10]}, sent {want[:10]}")
                    break
                wsd = [len(t["stream_data"]) for t in p.frames if t["kind"] == "STREAM"]
                gsd = [f["sd"] for f in s["frames"]["fr"] if "sd" in f]
                if wsd != gsd:
                    msgs.append(f"monitor: packet {i}: STREAM data lengths parsed {gsd}, sent {wsd}")
                    break
        return msgs[:2], cnt
