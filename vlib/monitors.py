"""In-process monitors, installed in the forked child by patching attributes of the real classes/modules in place.

Each monitor appends JSON lines to the event file of the run (offline checking happens in the worker, against the sender's ground
truth) and counts its evaluations: zero evaluations means *inconclusive* for what that monitor decides, never *held*.
No repository edit is needed: every observation point is a Python attribute reachable from outside.
"""
import json
import os
import sys

from . import runner


def _hex(x):
    if x is None:
        return None
    try:
        return bytes(x).hex()
    except Exception:
        return repr(x)


class EventLog:
    def __init__(self, d):
        self.f = open(os.path.join(d, "_events"), "a", buffering=1 << 16)
        runner.CHILD_AT_EXIT.append(self.f.flush)

    def emit(self, **kw):
        self.f.write(json.dumps(kw) + "\n")


def parse_events(raw):
    out = []
    for line in (raw or b"").splitlines():
        try:
            out.append(json.loads(line))
        except ValueError:
            pass
    return out


def rebind_everywhere(orig, new):
    """module-level functions imported by name (from x import f) are rebound in every tlexport module that holds the original object"""
    n = 0
    for name, mod in list(sys.modules.items()):
        if not name.startswith("tlexport") or mod is None:
            continue
        for k, v in list(vars(mod).items()):
            if v is orig:
                setattr(mod, k, new)
                n += 1
    return n


SEQ_BRANCHES = ("decrypt_tls13_aead", "decrypt_tls13_stream_cipher", "decrypt_tls12_aead", "decrypt_tls12_chacha20")
KEY_ATTRS = ("client_key", "server_key", "client_iv", "server_iv", "client_mac", "server_mac",
             "client_handshake_key", "server_handshake_key", "client_handshake_iv", "server_handshake_iv",
             "client_application_key", "server_application_key", "client_application_iv", "server_application_iv")


class TlsStateMonitor:
    """Hooks tlexport.decryptor.Decryptor: __init__ (installed key material), decrypt (per-direction state before/after), update_keys."""

    def __init__(self, keys=True):
        self.keys = keys

    def install(self, d):
        try:
            import tlexport.decryptor as D
            cls = D.Decryptor
            log = EventLog(d)
            orig_init, orig_decrypt, orig_update = cls.__init__, cls.decrypt, cls.update_keys
        except Exception as e:   # refactored away: the monitor is unavailable, the end-to-end oracle still decides
            with open(os.path.join(d, "_events"), "a") as f:
                f.write(json.dumps({"ev": "monitor-unavailable", "why": repr(e)}) + "\n")
            return
        ids = {}

        def oid(o):
            return ids.setdefault(id(o), len(ids))

        def snap(o, isserver):
            return {"seq": getattr(o, "server_seq" if isserver else "client_seq", None),
                    "lb": _hex(getattr(o, "last_block_server" if isserver else "last_block_client", None)),
                    "key": _hex(getattr(o, "server_key" if isserver else "client_key", None))[:16] if getattr(o, "server_key", None) is not None else None}

        def init(self, *a, **k):
            orig_init(self, *a, **k)
            ev = {"ev": "init", "o": oid(self), "version": getattr(getattr(self, "tls_version", None), "name", None),
                  "bulk": getattr(getattr(self, "bulk_alg", None), "__name__", None), "etm": getattr(self, "encrypt_then_mac", None),
                  "mac_len": getattr(self, "mac_length", None), "block": getattr(self, "block_length", None), "tag": getattr(self, "tag_length", None),
                  "key_len": getattr(self, "key_length", None)}
            for kname in KEY_ATTRS:
                if hasattr(self, kname):
                    ev[kname] = _hex(getattr(self, kname))
            log.emit(**ev)

        def decrypt(self, record, isserver):
            before = snap(self, isserver)
            other = snap(self, not isserver)
            try:
                r = orig_decrypt(self, record, isserver)
            except Exception as e:
                log.emit(ev="decrypt", o=oid(self), srv=bool(isserver), ok=False, exc=type(e).__name__, b=before, a=snap(self, isserver),
                         ob=other, oa=snap(self, not isserver), n=len(record.binary), t=record.record_type)
                raise
            log.emit(ev="decrypt", o=oid(self), srv=bool(isserver), ok=True, b=before, a=snap(self, isserver), ob=other, oa=snap(self, not isserver),
                     n=len(record.binary), t=record.record_type, out=None if r is None else len(r), tail=_hex(bytes(record.binary)[-64:]))
            return r

        def update_keys(self, isserver):
            orig_update(self, isserver)
            log.emit(ev="update_keys", o=oid(self), srv=bool(isserver), a=snap(self, isserver))

        cls.__init__, cls.decrypt, cls.update_keys = init, decrypt, update_keys

    def verdict(self, raw_events, conn):
        """offline checker over the event log -> (messages, {monitor: evaluations})"""
        evs = parse_events(raw_events)
        msgs = []
        cnt = {"decryptor.init": 0, "decryptor.decrypt": 0, "decryptor.seq_invariant": 0, "decryptor.residue_invariant": 0}
        p = conn.params
        v = conn.spec.version
        inits = {}
        expect_zero = set()
        for e in evs:
            if e["ev"] == "monitor-unavailable":
                return [], {"decryptor.monitor_unavailable": 1}
            if e["ev"] == "init":
                cnt["decryptor.init"] += 1
                inits[e["o"]] = e
            elif e["ev"] == "update_keys":
                if e["a"]["seq"] != 0:
                    msgs.append(f"monitor: sequence number is {e['a']['seq']} after the handshake->application key switch (must restart at 0)")
                expect_zero.add((e["o"], e["srv"]))
            elif e["ev"] == "decrypt":
                cnt["decryptor.decrypt"] += 1
                b, a = e["b"], e["a"]
                if e["ob"] != e["oa"]:
                    msgs.append(f"monitor: decrypting a {'server' if e['srv'] else 'client'} record changed the other direction's cipher state {e['ob']} -> {e['oa']}")
                aead_seq = p["aead"]
                if aead_seq and b["seq"] is not None:
                    cnt["decryptor.seq_invariant"] += 1
                    want = b["seq"] + 1 if e["ok"] else b["seq"]
                    if e["ok"] and a["seq"] != want and not (a["seq"] == 0 and b["key"] != a["key"]):
                        msgs.append(f"monitor: AEAD sequence number went {b['seq']} -> {a['seq']} on a successful decrypt (must be +1)")
                    if not e["ok"] and a["seq"] != b["seq"]:
                        msgs.append(f"monitor: AEAD sequence number changed {b['seq']} -> {a['seq']} although decrypt raised {e.get('exc')}")
                if e["ok"] and p["mode"] == "CBC" and v in (0x0300, 0x0301) and a["lb"] is not None:
                    cnt["decryptor.residue_invariant"] += 1
                    bs = p["block"]
                    tail = bytes.fromhex(e["tail"])
                    ini = inits.get(e["o"], {})
                    if ini.get("etm"):
                        tail = tail[:-p["mac_len"]] if len(tail) > p["mac_len"] else b""
                    want = tail[-bs:].hex()
                    if want and a["lb"] != want:
                        msgs.append(f"monitor: CBC residue after a record is {a['lb']}, last ciphertext block of that record is {want}")
        return msgs[:3], cnt
