"""Logical step counting for the real code (sys.monitoring, Python 3.12): LINE events in every code object whose file lies
under <repo>/tlexport are counted; when a call exceeds its step budget the callback raises StepBound *inside* the monitored
code, so a non-terminating loop is turned into an observable event instead of a hung harness.  Verdicts are on logical steps,
never on wall-clock time."""
import sys

TOOL = 3  # sys.monitoring.PROFILER_ID+1 .. any free id 0..5


class StepBound(BaseException):
    """raised inside the monitored code when the step budget is exhausted (BaseException: 'except Exception' must not swallow it)"""


class StepMonitor:
    def __init__(self, path_part="/tlexport/"):
        self.path_part = path_part
        self.count = 0
        self.limit = None
        self.lines = set()
        self.active = False
        self.mon = sys.monitoring

    def _line(self, code, line):
        if self.path_part not in code.co_filename:
            return self.mon.DISABLE
        self.count += 1
        if self.limit is not None and self.count > self.limit:
            self.limit = None
            raise StepBound(f"more than {self.count - 1} statement executions ({code.co_filename.rsplit('/', 1)[-1]}:{line})")
        return None

    def install(self):
        m = self.mon
        try:
            m.use_tool_id(TOOL, "tleverif-steps")
        except ValueError:
            pass
        m.register_callback(TOOL, m.events.LINE, self._line)
        m.set_events(TOOL, m.events.LINE)
        self.active = True

    def uninstall(self):
        m = self.mon
        m.set_events(TOOL, 0)
        m.register_callback(TOOL, m.events.LINE, None)
        try:
            m.free_tool_id(TOOL)
        except ValueError:
            pass
        self.active = False

    def call(self, limit, fn, *a, **kw):
        """-> (steps, result, exception) ; StepBound is returned as exception, never propagated"""
        self.count = 0
        self.limit = limit
        try:
            r = fn(*a, **kw)
            return self.count, r, None
        except StepBound as e:
            return self.count, None, e
        except Exception as e:
            return self.count, None, e
        finally:
            self.limit = None
