"""End-to-end helpers shared by the checks: run a scene through the real program and analyse the output."""
from . import outparse, runner, scene, suites, tcpcap, tlssynth


def run_capture(cap_bytes, keylog_bytes, extra=(), child_setup=None, legacy=False, no_keylog_opt=False, cwd=None, cpu=60):
    files = {"in.pcapng": cap_bytes}
    argv = ["-i", "{dir}/in.pcapng", "-o", "{dir}/out.pcapng"]
    if keylog_bytes is not None and not no_keylog_opt:
        files["keys.log"] = keylog_bytes
        argv += ["-s", "{dir}/keys.log"]
    if legacy:
        argv += ["-l"]
    argv += list(extra)
    res = runner.run_tlexport(files, argv, child_setup=child_setup, cwd=cwd, cpu=cpu)
    return res, files, argv


def run_failed(res):
    """message if the run did not complete normally (refutes every property that needs an output), else None;
    'INCONCLUSIVE:' prefix for wall-clock-only timeouts"""
    if res.status == "ok" and res.out is not None:
        return None
    if res.status == "timeout":
        return "INCONCLUSIVE: wall-clock watchdog fired before the CPU budget was used up"
    if res.status == "cpu":
        return "run did not terminate within its CPU budget (non-termination); stack:\n" + (res.stderr or b"").decode("utf8", "replace")[-1500:]
    if res.status == "ok":
        return "run returned normally but wrote no output file"
    sig = res.crash_signature()
    return f"run failed: status={res.status} signature={sig}; stderr tail: " + (res.stderr or b"").decode("utf8", "replace")[-700:]


def exported_port(sport, mapargs):
    """the documented server-port mapping: mapargs None (no -m) -> original; list of 'a:b' strings ([] = bare -m -> 443:8080)"""
    if mapargs is None:
        return sport
    m = {}
    for a in (mapargs or ["443:8080"]):
        a = a.replace(",", "")
        x, y = a.split(":")
        m[int(x)] = int(y)
    return m.get(sport, 8080)


def tls_expect_keys(ep, mapargs=None):
    sp = exported_port(ep.sport, mapargs)
    return (ep.cip, ep.cport, ep.sip, sp), (ep.sip, sp, ep.cip, ep.cport)


def compare_stream(name, got, want):
    """-> None or a message describing the first difference"""
    got = got or b""
    if got == want:
        return None
    n = min(len(got), len(want))
    i = next((k for k in range(n) if got[k] != want[k]), n)
    kind = ("lost data (export is a strict prefix)" if got == want[:len(got)] else
            "extra data after the true stream" if want == got[:len(want)] else "differs")
    return (f"{name}: exported {len(got)} bytes, endpoint sent {len(want)}: {kind}; first difference at offset {i}: "
            f"exported {got[i:i + 12].hex()} sent {want[i:i + 12].hex()}")


def check_tls_streams(an, conn, ep, mapargs=None, label=""):
    kc, ks = tls_expect_keys(ep, mapargs)
    msgs = []
    for key, d in ((kc, "c"), (ks, "s")):
        m = compare_stream(f"{label}{'client' if d == 'c' else 'server'}->{'server' if d == 'c' else 'client'} stream", an.tcp.get(key), conn.truth[d])
        if m:
            msgs.append(m)
    return msgs


def describe_spec(spec):
    d = {k: v for k, v in vars(spec).items() if k != "app"}
    d["suite"] = f"{spec.suite:04X} {suites.REGISTRY[spec.suite]}"
    d["version"] = suites.VNAME[spec.version]
    d["app"] = [(x, len(b)) for x, b in spec.app][:40]
    return d
