"""Synthetic QUIC v1 connections (RFC 9000/9001): a reference pair of sending endpoints."""
import hashlib
import warnings
from dataclasses import dataclass, field

from . import refkdf
from .tlssynth import hs, ext, rb

with warnings.catch_warnings():
    warnings.simplefilter("ignore")
    from cryptography.hazmat.primitives.ciphers import Cipher
    from cryptography.hazmat.primitives.ciphers.algorithms import AES, ChaCha20
    from cryptography.hazmat.primitives.ciphers.modes import ECB
    from cryptography.hazmat.primitives.ciphers.aead import AESGCM, AESCCM, ChaCha20Poly1305

SUITES = {0x1301: ("sha256", 16, "GCM"), 0x1302: ("sha384", 32, "GCM"),
          0x1303: ("sha256", 32, "CHACHA"), 0x1304: ("sha256", 16, "CCM")}


def varint(v, force_len=None):
    for ln, pre in ((1, 0), (2, 1), (4, 2), (8, 3)):
        if v < 1 << (8 * ln - 2) and (force_len is None or ln >= force_len):
            return ((pre << (8 * ln - 2)) | v).to_bytes(ln, "big")
    raise ValueError(v)


# ------------------------------------------------------------------ frames
def f_padding(n):
    return bytes(n)


def f_ping():
    return b"\x01"


def f_ack(largest, delay=0, first=0, ranges=(), ecn=None, vl=None):
    b = bytes([3 if ecn else 2]) + varint(largest, vl) + varint(delay, vl) + varint(len(ranges), vl) + varint(first, vl)
    for g, r in ranges:
        b += varint(g, vl) + varint(r, vl)
    if ecn:
        b += b"".join(varint(x, vl) for x in ecn)
    return b


def f_crypto(off, data, vl=None):
    return b"\x06" + varint(off, vl) + varint(len(data), vl) + data


def f_stream(sid, data, off=None, fin=False, explicit_len=True, vl=None):
    t = 0x08 | (4 if off is not None else 0) | (2 if explicit_len else 0) | (1 if fin else 0)
    b = bytes([t]) + varint(sid, vl)
    if off is not None:
        b += varint(off, vl)
    if explicit_len:
        b += varint(len(data), vl)
    return b + data


def f_new_cid(seq, retire, cid, token):
    return b"\x18" + varint(seq) + varint(retire) + bytes([len(cid)]) + cid + token


def f_max_data(v):
    return b"\x10" + varint(v)


def f_max_stream_data(s, v):
    return b"\x11" + varint(s) + varint(v)


def f_max_streams(v, uni=False):
    return bytes([0x13 if uni else 0x12]) + varint(v)


def f_datagram(data, explicit_len=True):
    return (b"\x31" + varint(len(data)) + data) if explicit_len else (b"\x30" + data)


def f_handshake_done():
    return b"\x1e"


def f_new_token(tok):
    return b"\x07" + varint(len(tok)) + tok


# ------------------------------------------------------------------ packet protection
class Keys:
    def __init__(self, hashname, secret, key_len, mode):
        k = refkdf.quic_keys(hashname, secret, key_len)
        self.key, self.iv, self.hp, self.mode, self.secret, self.hashname, self.key_len = k["key"], k["iv"], k["hp"], mode, secret, hashname, key_len

    def next_gen(self):
        n = Keys(self.hashname, refkdf.quic_next_secret(self.hashname, self.secret), self.key_len, self.mode)
        n.hp = self.hp  # header protection key is not updated
        return n

    def aead(self):
        return {"GCM": AESGCM, "CHACHA": ChaCha20Poly1305}.get(self.mode, None)(self.key) if self.mode != "CCM" else AESCCM(self.key, 16)

    def mask(self, sample):
        if self.mode == "CHACHA":
            return Cipher(ChaCha20(self.hp, sample), mode=None).encryptor().update(bytes(5))
        return Cipher(AES(self.hp), ECB()).encryptor().update(sample)[:5]


def protect(keys: Keys, header_wo_pn: bytes, pn: int, pn_len: int, payload: bytes, long_hdr: bool):
    """header_wo_pn: everything before the packet number (for long headers the Length field must already
    account for pn_len + len(payload) + 16)."""
    while pn_len + len(payload) < 4:          # room for the header-protection sample
        payload += b"\x00"
    pnb = (pn & ((1 << (8 * pn_len)) - 1)).to_bytes(pn_len, "big")
    hdr = bytearray(header_wo_pn + pnb)
    nonce = bytes(a ^ b for a, b in zip(keys.iv, pn.to_bytes(12, "big")))
    ct = keys.aead().encrypt(nonce, payload, bytes(hdr))
    pn_off = len(header_wo_pn)
    sample = (pnb + ct)[4:20]
    m = keys.mask(sample)
    hdr[0] ^= m[0] & (0x0F if long_hdr else 0x1F)
    for i in range(pn_len):
        hdr[pn_off + i] ^= m[1 + i]
    return bytes(hdr) + ct


def long_packet(keys, ptype, dcid, scid, pn, pn_len, payload, token=None, len_vl=2):
    while pn_len + len(payload) < 4:
        payload += b"\x00"
    first = 0xC0 | (ptype << 4) | (pn_len - 1)
    h = bytes([first]) + b"\x00\x00\x00\x01" + bytes([len(dcid)]) + dcid + bytes([len(scid)]) + scid
    if ptype == 0:
        h += varint(len(token or b"")) + (token or b"")
    h += varint(pn_len + len(payload) + 16, len_vl)
    return protect(keys, h, pn, pn_len, payload, True)


def short_packet(keys, dcid, pn, pn_len, payload, key_phase=0, spin=0):
    first = 0x40 | (spin << 5) | (key_phase << 2) | (pn_len - 1)
    return protect(keys, bytes([first]) + dcid, pn, pn_len, payload, False)


def retry_packet(odcid, dcid, scid, token):
    pseudo = bytes([len(odcid)]) + odcid
    body = bytes([0xF0]) + b"\x00\x00\x00\x01" + bytes([len(dcid)]) + dcid + bytes([len(scid)]) + scid + token
    tag = AESGCM(bytes.fromhex("be0c690b9f66575a1d766b54e368c84e")).encrypt(bytes.fromhex("461599d35d632bf2239825bb"), b"", pseudo + body)
    return body + tag


# ------------------------------------------------------------------ connection
@dataclass
class QSpec:
    suite: int = 0x1301
    offered: tuple = (0x1301, 0x1302, 0x1303)
    c_scid_len: int = 8          # client's source CID (server uses it as DCID)
    s_scid_len: int = 8
    odcid_len: int = 8
    retry: bool = False
    zero_rtt: list = field(default_factory=list)     # [bytes] stream payloads in 0-RTT
    ch_split: tuple = ()          # cut points of ClientHello into CRYPTO frames
    ch_order: tuple = ()          # order in which the CRYPTO frames are sent
    ch_packets: int = 1           # spread over that many Initial packets
    app: list = field(default_factory=list)          # [(dir, [ [frame-spec,...] per packet ])]
    key_updates: tuple = ()       # indexes into app at which the sender initiates a key update
    pn_len_mode: str = "min"      # min | rand | 4
    pn_start: int = 0
    pn_gap: int = 0
    new_cid_at: int = -1          # server issues NEW_CONNECTION_ID; client switches to it afterwards
    v6: bool = False
    token: bytes = b""
    pn_split: bool = False   # keep the two directions' packet numbers disjoint (avoids D14)


@dataclass
class QConn:
    spec: QSpec
    dgrams: list      # [(dir, bytes)]
    expect: list      # [(dir, stream_bytes)] one per datagram carrying stream data (non-empty)
    keylog: list
    client_random: bytes
    info: dict


class _Space:
    def __init__(self, start=0):
        self.next = start
        self.prev = None


def _pn(space: _Space, rng, mode, gap=0):
    pn = space.next + (rng.randrange(0, gap + 1) if gap else 0)
    delta = pn + 1 if space.prev is None else pn - space.prev
    need = 1
    while (1 << (8 * need - 1)) <= delta:
        need += 1
    if mode == "4":
        ln = 4
    elif mode == "rand":
        ln = rng.randrange(need, 5)
    else:
        ln = need
    space.prev = pn
    space.next = pn + 1
    return pn, ln


def build_qconn(spec: QSpec, rng) -> QConn:
    hname, klen, mode = SUITES[spec.suite]
    hl = hashlib.new(hname).digest_size
    cr = rb(rng, 32)
    odcid = rb(rng, spec.odcid_len)
    c_scid = rb(rng, spec.c_scid_len)
    s_scid = rb(rng, spec.s_scid_len)
    sec = {k: rb(rng, hl) for k in ("chs", "shs", "cap", "sap", "early")}
    keylog = [f"CLIENT_HANDSHAKE_TRAFFIC_SECRET {cr.hex()} {sec['chs'].hex()}",
              f"SERVER_HANDSHAKE_TRAFFIC_SECRET {cr.hex()} {sec['shs'].hex()}",
              f"CLIENT_TRAFFIC_SECRET_0 {cr.hex()} {sec['cap'].hex()}",
              f"SERVER_TRAFFIC_SECRET_0 {cr.hex()} {sec['sap'].hex()}"]
    if spec.zero_rtt:
        keylog.insert(0, f"CLIENT_EARLY_TRAFFIC_SECRET {cr.hex()} {sec['early'].hex()}")
    K = {k: Keys(hname, s, klen, mode) for k, s in sec.items() if k != "early"}
    # 0-RTT keys use the suite of the resumed session: take the first offered suite (what an
    # implementation that remembers its PSK suite would put first)
    eh, ek, em = SUITES.get(spec.offered[0], SUITES[0x1301])
    if spec.zero_rtt:
        K["early"] = Keys(eh, rb(rng, hashlib.new(eh).digest_size) if False else sec["early"][:hashlib.new(eh).digest_size].ljust(hashlib.new(eh).digest_size, b"\0"), ek, em)

    tp = b"".join(varint(i) + varint(len(v)) + v for i, v in ((1, varint(30000)), (4, varint(1 << 20)), (0x0f, c_scid)))
    ce = (ext(0, b"\x00\x0e\x00\x00\x0bexample.org") + ext(16, b"\x00\x03\x02h3") + ext(43, b"\x02\x03\x04") +
          ext(51, b"\x00\x24\x00\x1d\x00\x20" + rb(rng, 32)) + ext(57, tp))
    offered = b"".join(s.to_bytes(2, "big") for s in spec.offered)
    ch = hs(1, b"\x03\x03" + cr + b"\x00" + len(offered).to_bytes(2, "big") + offered + b"\x01\x00" + len(ce).to_bytes(2, "big") + ce)
    se = ext(43, b"\x03\x04") + ext(51, b"\x00\x1d\x00\x20" + rb(rng, 32))
    sh = hs(2, b"\x03\x03" + rb(rng, 32) + b"\x00" + spec.suite.to_bytes(2, "big") + b"\x00" + len(se).to_bytes(2, "big") + se)
    ee_ext = ext(16, b"\x00\x03\x02h3") + ext(57, varint(0) + varint(len(odcid)) + odcid)
    s_hs = hs(8, len(ee_ext).to_bytes(2, "big") + ee_ext) + hs(11, b"\x00" + rb(rng, 700)) + hs(15, b"\x08\x04\x00\x40" + rb(rng, 64)) + hs(20, rb(rng, hl))
    c_fin = hs(20, rb(rng, hl))

    dg, expect = [], []
    sp = {(d, s): _Space((spec.pn_start + (1000003 if d == "s" and spec.pn_split else 0)) if s == "app" else (7 if d == "s" and spec.pn_split and s == "hs" else (3 if d=="s" and spec.pn_split else 0))) for d in "cs" for s in ("init", "hs", "app")}

    def pn(d, s):
        return _pn(sp[(d, s)], rng, spec.pn_len_mode, spec.pn_gap)

    init_dcid = odcid
    if spec.retry:
        ci, si = refkdf.quic_initial_secrets(odcid)
        KI = {"c": Keys("sha256", ci, 16, "GCM"), "s": Keys("sha256", si, 16, "GCM")}
        p, l = pn("c", "init")
        pay = f_crypto(0, ch)
        pkt = long_packet(KI["c"], 0, odcid, c_scid, p, l, pay + bytes(max(0, 1162 - len(pay))))
        dg.append(("c", pkt))
        retry_scid = rb(rng, 8)
        token = rb(rng, 24)
        dg.append(("s", retry_packet(odcid, c_scid, retry_scid, token)))
        init_dcid = retry_scid
        tok = token
    else:
        tok = spec.token
    ci, si = refkdf.quic_initial_secrets(init_dcid)
    KI = {"c": Keys("sha256", ci, 16, "GCM"), "s": Keys("sha256", si, 16, "GCM")}

    # ClientHello, possibly split and reordered over CRYPTO frames / packets
    cuts = [0] + [c for c in spec.ch_split if 0 < c < len(ch)] + [len(ch)]
    pieces = [(cuts[i], ch[cuts[i]:cuts[i + 1]]) for i in range(len(cuts) - 1)]
    if spec.ch_order:
        pieces = [pieces[i] for i in spec.ch_order]
    npk = max(1, min(spec.ch_packets, len(pieces)))
    per = [pieces[i::npk] for i in range(npk)]
    for grp in per:
        p, l = pn("c", "init")
        pay = b"".join(f_crypto(o, d) for o, d in grp)
        pkt = long_packet(KI["c"], 0, init_dcid, c_scid, p, l, pay + bytes(max(0, 1162 - len(pay))), token=tok)
        dg.append(("c", pkt))
    # 0-RTT
    for i, data in enumerate(spec.zero_rtt):
        p, l = pn("c", "app")
        dg.append(("c", long_packet(K["early"], 1, init_dcid, c_scid, p, l, f_stream(0, data, off=None if i == 0 else sum(len(x) for x in spec.zero_rtt[:i])))))
        expect.append(("c", data))
    # server flight
    p, l = pn("s", "init")
    p1 = long_packet(KI["s"], 0, c_scid, s_scid, p, l, f_ack(0) + f_crypto(0, sh))
    p2n, l2 = pn("s", "hs")
    half = len(s_hs) // 2
    p2 = long_packet(K["shs"], 2, c_scid, s_scid, p2n, l2, f_crypto(0, s_hs[:half]))
    dg.append(("s", p1 + p2))
    p3n, l3 = pn("s", "hs")
    dg.append(("s", long_packet(K["shs"], 2, c_scid, s_scid, p3n, l3, f_crypto(half, s_hs[half:]))))
    # client finish
    a, la = pn("c", "init")
    b, lb = pn("c", "hs")
    pkA = long_packet(KI["c"], 0, s_scid, c_scid, a, la, f_ack(0))
    pkB = long_packet(K["chs"], 2, s_scid, c_scid, b, lb, f_ack(1, first=1) + f_crypto(0, c_fin))
    dg.append(("c", pkA + pkB + bytes(max(0, 1200 - len(pkA) - len(pkB))) if False else pkA + pkB))
    # server: handshake done (+ new connection id)
    p, l = pn("s", "app")
    dg.append(("s", short_packet(K["sap"], c_scid, p, l, f_handshake_done() + f_new_token(rb(rng, 16)))))

    cur = {"c": K["cap"], "s": K["sap"]}
    phase = {"c": 0, "s": 0}
    gen = {"c": 0, "s": 0}
    s_cid_in_use = s_scid
    info = {"odcid": odcid, "c_scid": c_scid, "s_scid": s_scid, "suite": spec.suite}
    for idx, (d, packets) in enumerate(spec.app):
        if idx in spec.key_updates:
            # d initiates: both directions move to the next generation; peer answers with the new phase
            for x in "cs":
                cur[x] = cur[x].next_gen()
                phase[x] ^= 1
        out = b""
        sdata = b""
        for frames in packets:
            pay = b""
            for fr in frames:
                if fr[0] == "stream":
                    _, sid, data, kw = fr
                    pay += f_stream(sid, data, **kw)
                    sdata += data
                else:
                    pay += fr[1]
            p, l = pn(d, "app")
            dcid = c_scid if d == "s" else s_cid_in_use
            out += short_packet(cur[d], dcid, p, l, pay, key_phase=phase[d])
        if idx == spec.new_cid_at:
            new = rb(rng, len(s_scid) or 8)
            p, l = pn("s", "app")
            dg.append(("s", short_packet(cur["s"], c_scid, p, l, f_new_cid(1, 0, new, rb(rng, 16)), key_phase=phase["s"])))
            s_cid_in_use = new
        dg.append((d, out))
        if sdata:
            expect.append((d, sdata))
    return QConn(spec, dg, expect, keylog, cr, info)
