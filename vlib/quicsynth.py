"""Synthetic QUIC v1 connections (RFC 9000/9001/9221): a reference pair of *sending* endpoints with ground truth.

build_qconn(spec, rng) -> QConn
  .dgrams   [Dgram] in send order: dir, bytes, packets=[PktInfo(space, pn, pn_len, frames=[truth dicts], key_phase)], stream (STREAM data carried)
  .expect   [(dir, bytes)] one entry per datagram that carried STREAM data (non-empty), in order
  .expect_meta [(dir, bytes)] per datagram: CRYPTO and STREAM data in frame order (what -a exports)
  .keylog   NSS key log lines ; .ref_keys reference key material per level/generation (for C15)
Sender validity rules (self-checked, see DESIGN 2.1): at most one short-header packet per datagram and it is last; padding needed for the
header-protection sample goes before a LEN-less frame; every packet number decodes by RFC 9000 A.3 with the receiver's largest-so-far;
a key update is only initiated after the peer has sent in the current phase.
"""
import hashlib
import warnings
from dataclasses import dataclass, field

from . import qframes as qf, refkdf
from .tlssynth import hs, ext

with warnings.catch_warnings():
    warnings.simplefilter("ignore")
    from cryptography.hazmat.primitives.ciphers import Cipher
    from cryptography.hazmat.primitives.ciphers.algorithms import AES, ChaCha20
    from cryptography.hazmat.primitives.ciphers.modes import ECB
    from cryptography.hazmat.primitives.ciphers.aead import AESGCM, AESCCM, ChaCha20Poly1305

SUITES = {0x1301: ("sha256", 16, "GCM"), 0x1302: ("sha384", 32, "GCM"),
          0x1303: ("sha256", 32, "CHACHA"), 0x1304: ("sha256", 16, "CCM")}
varint = qf.varint


class Keys:
    def __init__(self, hashname, secret, key_len, mode):
        k = refkdf.quic_keys(hashname, secret, key_len)
        self.key, self.iv, self.hp, self.mode, self.secret, self.hashname, self.key_len = k["key"], k["iv"], k["hp"], mode, secret, hashname, key_len

    def next_gen(self):
        n = Keys(self.hashname, refkdf.quic_next_secret(self.hashname, self.secret), self.key_len, self.mode)
        n.hp = self.hp  # header protection key is not updated (RFC 9001 6)
        return n

    def aead(self):
        if self.mode == "GCM":
            return AESGCM(self.key)
        if self.mode == "CCM":
            return AESCCM(self.key, 16)
        return ChaCha20Poly1305(self.key)

    def mask(self, sample):
        if self.mode == "CHACHA":
            return Cipher(ChaCha20(self.hp, sample), mode=None).encryptor().update(bytes(5))
        return Cipher(AES(self.hp), ECB()).encryptor().update(sample)[:5]

    def material(self):
        return {"key": self.key, "iv": self.iv, "hp": self.hp, "secret": self.secret}


def protect(keys: Keys, header_wo_pn: bytes, pn: int, pn_len: int, payload: bytes, long_hdr: bool):
    assert pn_len + len(payload) >= 4
    pnb = (pn & ((1 << (8 * pn_len)) - 1)).to_bytes(pn_len, "big")
    hdr = bytearray(header_wo_pn + pnb)
    nonce = bytes(a ^ b for a, b in zip(keys.iv, pn.to_bytes(12, "big")))
    ct = keys.aead().encrypt(nonce, payload, bytes(hdr))
    pn_off = len(header_wo_pn)
    sample = (pnb + ct)[4:20]
    assert len(sample) == 16
    m = keys.mask(sample)
    hdr[0] ^= m[0] & (0x0F if long_hdr else 0x1F)
    for i in range(pn_len):
        hdr[pn_off + i] ^= m[1 + i]
    return bytes(hdr) + ct


def long_packet(keys, ptype, dcid, scid, pn, pn_len, payload, token=None, len_vl=2, fixed=1, tok_vl=None):
    first = 0x80 | (fixed << 6) | (ptype << 4) | (pn_len - 1)
    h = bytes([first]) + b"\x00\x00\x00\x01" + bytes([len(dcid)]) + dcid + bytes([len(scid)]) + scid
    if ptype == 0:
        h += varint(len(token or b""), tok_vl) + (token or b"")
    h += varint(pn_len + len(payload) + 16, len_vl)
    return protect(keys, h, pn, pn_len, payload, True)


def short_packet(keys, dcid, pn, pn_len, payload, key_phase=0, spin=0, fixed=1):
    first = (fixed << 6) | (spin << 5) | (key_phase << 2) | (pn_len - 1)
    return protect(keys, bytes([first]) + dcid, pn, pn_len, payload, False)


def retry_packet(odcid, dcid, scid, token):
    pseudo = bytes([len(odcid)]) + odcid
    body = bytes([0xF0]) + b"\x00\x00\x00\x01" + bytes([len(dcid)]) + dcid + bytes([len(scid)]) + scid + token
    tag = AESGCM(bytes.fromhex("be0c690b9f66575a1d766b54e368c84e")).encrypt(bytes.fromhex("461599d35d632bf2239825bb"), b"", pseudo + body)
    return body + tag


def rfc_decode(largest, truncated, nbits):
    expected = largest + 1
    win = 1 << nbits
    hwin = win // 2
    mask = win - 1
    cand = (expected & ~mask) | truncated
    if cand <= expected - hwin and cand < (1 << 62) - win:
        return cand + win
    if cand > expected + hwin and cand >= win:
        return cand - win
    return cand


@dataclass
class QSpec:
    suite: int = 0x1301
    offered: tuple = (0x1301, 0x1302, 0x1303)   # ClientHello cipher_suites in order (selected one must be in it)
    c_scid_len: int = 8
    s_scid_len: int = 8
    odcid_len: int = 8
    retry: bool = False
    zero_rtt: list = field(default_factory=list)     # [[frame-spec,...]] one 0-RTT packet each (own datagram unless zero_rtt_coalesce)
    zero_rtt_before_retry: int = 0                   # with retry: that many of the 0-RTT packets are (also) sent in the first flight, before the Retry
    zero_rtt_coalesce: bool = False                  # first 0-RTT packet shares the datagram of the (last) client Initial
    zero_rtt_ext: str = ""                           # "" : the hellos carry no early_data extension (as before) | "accepted": ClientHello early_data + pre_shared_key, EncryptedExtensions echo early_data | "rejected": the server's EncryptedExtensions lack it (RFC 8446 4.2.10: the early data is discarded by the server - the client did send it)
    ch_split: tuple = ()          # cut points of ClientHello into CRYPTO frames
    ch_order: tuple = ()          # order in which the CRYPTO frames are sent
    ch_packets: int = 1           # spread over that many Initial packets
    app: list = field(default_factory=list)          # [(dir, [[frame-spec,...] per packet])]; at most one packet per entry (short header)
    key_updates: tuple = ()       # indexes into app at which that entry's sender initiates a key update (made valid by the builder)
    pn_len_mode: str = "min"      # min | rand | 4
    pn_start: dict = field(default_factory=dict)     # {(dir, space): first packet number}
    pn_gap: int = 0
    new_cid_at: int = -1          # before app entry i the server issues NEW_CONNECTION_ID and the client switches to it
    new_cid_len: int = -1         # -1: same length as the server's CID
    new_cid_prefix: str = ""      # "" | "extend" (new CID = old CID + more bytes) | "truncate" (new CID = a proper prefix of the old one)
    client_new_cid_at: int = -1   # same, issued by the client, server switches
    secrets: dict = None          # use these traffic secrets ({"chs"|"shs"|"cap"|"sap": bytes}) instead of random ones
    c_scid_value: bytes = None    # force the client's source connection ID (two clients of one server picking the same short ID)
    path_swaps: int = 0           # so many 1-RTT datagrams are overtaken by their successor on the path (shown swapped in the capture), see reorder_on_path
    late_hs_ack: bool = False     # after the server's HANDSHAKE_DONE the capture still shows a client datagram Handshake(ACK) + 1-RTT(STREAM) that was in flight (capture near the server)
    crypto_retx: str = ""         # "" | "ch" | "sh" | "both": the ClientHello Initial(s) / the server's Initial+Handshake flight are sent a second time (loss recovery: same CRYPTO offsets, new packet numbers)
    new_cid_retire: int = 0       # Retire Prior To of the NEW_CONNECTION_ID frames (0, or 1 = "retire the CID you are using now")
    new_cid_lag: int = 0          # the peer's next k packets were already in flight: they still carry the old CID, the switch happens afterwards
    token: bytes = b""
    varint_policy: object = "min"
    coalesce_1rtt_with_hs: bool = False   # client's first 1-RTT packet shares the datagram of its Handshake Finished
    server_half_rtt: bool = False         # server sends 1-RTT stream data coalesced after its Handshake flight (0.5-RTT)
    hs_split: int = 2             # server handshake flight over that many Handshake packets
    len_vl: int = 2               # width of the long-header Length varint
    tok_vl: object = None         # width of the Initial token-length varint (None: minimal)
    early_secret_line: bool = True
    nst: int = 0                  # NewSessionTicket messages in 1-RTT CRYPTO frames
    sh_suite: int = -1            # >= 0: the ServerHello announces this suite id instead of the negotiated one (fault injection: unknown suite)
    grease: float = 0.0           # probability per packet of clearing the QUIC fixed bit (RFC 9287); such captures need the -g option


@dataclass
class PktInfo:
    space: str
    pn: int
    pn_len: int
    frames: list
    key_phase: int = 0
    long: bool = True


@dataclass
class Dgram:
    dir: str
    data: bytes
    packets: list
    stream: bytes = b""
    meta: bytes = b""


@dataclass
class QConn:
    spec: QSpec
    dgrams: list
    expect: list
    expect_meta: list
    keylog: list
    client_random: bytes
    info: dict
    ref_keys: dict


class _Space:
    def __init__(self, start=0):
        self.next = start
        self.largest = None      # receiver's largest so far


def build_payload(frames_spec, w, min_len):
    """frames_spec: list of ('stream', sid, data, kw) | ('raw', bytes, truth) -> (payload, truths, stream_data, meta_data)"""
    parts, truths, sdata, meta = [], [], b"", b""
    for fr in frames_spec:
        if fr[0] == "stream":
            _, sid, data, kw = fr
            b, t = qf.stream(w, sid, data, **kw)
            sdata += data
            meta += data
        elif fr[0] == "crypto":
            _, off, data = fr
            b, t = qf.crypto(w, off, data)
            meta += data
        else:
            _, b, t = fr
        parts.append(b)
        truths.append(t)
    pay = b"".join(parts)
    if len(pay) < min_len:    # padding for the header-protection sample goes *before* (a LEN-less frame extends to the end)
        pad = min_len - len(pay)
        pay = bytes(pad) + pay
        truths.insert(0, {"kind": "PADDING", "n": pad})
    return pay, truths, sdata, meta


def build_qconn(spec: QSpec, rng) -> QConn:
    hname, klen, mode = SUITES[spec.suite]
    hl = hashlib.new(hname).digest_size
    rb = rng.randbytes
    w = qf.W(rng, spec.varint_policy)
    assert spec.suite in spec.offered
    cr = rb(32)
    if 0 < spec.odcid_len < 4 and (spec.s_scid_len < spec.odcid_len or spec.new_cid_prefix == "truncate" or 0 <= spec.new_cid_len < spec.odcid_len):
        spec.odcid_len = 8          # sender validity (see random_qspec): a 1..3-byte original DCID only together with server connection IDs at least as long
    odcid = rb(spec.odcid_len)
    c_scid = rb(spec.c_scid_len) if spec.c_scid_value is None else bytes(spec.c_scid_value)
    s_scid = rb(spec.s_scid_len)
    sec = {k: rb(hl) for k in ("chs", "shs", "cap", "sap")}
    sec.update(spec.secrets or {})
    keylog = [f"CLIENT_HANDSHAKE_TRAFFIC_SECRET {cr.hex()} {sec['chs'].hex()}",
              f"SERVER_HANDSHAKE_TRAFFIC_SECRET {cr.hex()} {sec['shs'].hex()}",
              f"CLIENT_TRAFFIC_SECRET_0 {cr.hex()} {sec['cap'].hex()}",
              f"SERVER_TRAFFIC_SECRET_0 {cr.hex()} {sec['sap'].hex()}"]
    K = {k: Keys(hname, s, klen, mode) for k, s in sec.items()}
    ref_keys = {"handshake": {"c": K["chs"].material(), "s": K["shs"].material()}, "app": [{"c": K["cap"].material(), "s": K["sap"].material()}]}
    if spec.zero_rtt:
        # 0-RTT keys use the suite of the resumed session; a client offers that suite first, and a server that accepts 0-RTT selects it
        assert spec.offered[0] == spec.suite
        early = rb(hl)
        if spec.early_secret_line:
            keylog.insert(0, f"CLIENT_EARLY_TRAFFIC_SECRET {cr.hex()} {early.hex()}")
        K["early"] = Keys(hname, early, klen, mode)
        ref_keys["early"] = K["early"].material()

    tps = [(1, varint(30000)), (4, varint(1 << 20)), (0x0f, c_scid), (27 + 31 * 5, b"\x01\x02")]      # incl. one reserved (GREASE) parameter, RFC 9000 18.1
    if spec.grease:
        tps.insert(2, (0x2ab2, b""))                  # grease_quic_bit, RFC 9287
    tp = b"".join(varint(i) + varint(len(v)) + v for i, v in tps)
    ce = (ext(0, b"\x00\x0e\x00\x00\x0bexample.org") + ext(16, b"\x00\x03\x02h3") + ext(43, b"\x02\x03\x04") +
          ext(51, b"\x00\x24\x00\x1d\x00\x20" + rb(32)) + ext(57, tp))
    if spec.zero_rtt and spec.zero_rtt_ext:
        # a client that sends 0-RTT offers early_data and, as the last extension, a pre_shared_key (one identity, one binder)
        ident = rb(rng.choice([32, 100]))
        ce += ext(45, b"\x01\x01") + ext(42, b"") + ext(41, (len(ident) + 6).to_bytes(2, "big") + len(ident).to_bytes(2, "big") + ident + rb(4) + (hl + 1).to_bytes(2, "big") + bytes([hl]) + rb(hl))
    offered = b"".join(s.to_bytes(2, "big") for s in spec.offered)
    ch = hs(1, b"\x03\x03" + cr + b"\x00" + len(offered).to_bytes(2, "big") + offered + b"\x01\x00" + len(ce).to_bytes(2, "big") + ce)
    se = ext(43, b"\x03\x04") + ext(51, b"\x00\x1d\x00\x20" + rb(32))
    if spec.zero_rtt and spec.zero_rtt_ext and (spec.zero_rtt_ext == "accepted" or len(ident) == 32):
        se += ext(41, b"\x00\x00")       # the server resumes the session (a server may accept the PSK and still refuse the early data)
    sh = hs(2, b"\x03\x03" + rb(32) + b"\x00" + (spec.suite if spec.sh_suite < 0 else spec.sh_suite).to_bytes(2, "big") + b"\x00" + len(se).to_bytes(2, "big") + se)
    ee_ext = ext(16, b"\x00\x03\x02h3") + ext(57, varint(0) + varint(len(odcid)) + odcid)
    if spec.zero_rtt and spec.zero_rtt_ext == "accepted":
        ee_ext += ext(42, b"")
    s_hs = hs(8, len(ee_ext).to_bytes(2, "big") + ee_ext) + hs(11, b"\x00" + rb(rng.choice([100, 700, 2000]))) + hs(15, b"\x08\x04\x00\x40" + rb(64)) + hs(20, rb(hl))
    c_fin = hs(20, rb(hl))

    dg = []
    sp = {(d, s): _Space(spec.pn_start.get((d, s), 0)) for d in "cs" for s in ("init", "hs", "app")}

    def pn(d, s):
        space = sp[(d, s)]
        n = space.next + (rng.randrange(0, spec.pn_gap + 1) if spec.pn_gap and space.largest is not None else 0)      # (the first number of a space must fit in 4 bytes)
        largest = 0 if space.largest is None else space.largest
        need = 1
        while need <= 4 and rfc_decode(largest, n & ((1 << 8 * need) - 1), 8 * need) != n:
            need += 1
        assert need <= 4, ("packet number not encodable", n, largest)
        ok = [ln for ln in range(need, 5) if rfc_decode(largest, n & ((1 << 8 * ln) - 1), 8 * ln) == n]
        if spec.pn_len_mode == "4":
            ln = 4
        elif spec.pn_len_mode == "rand":
            ln = rng.choice(ok)
        else:
            ln = need
        space.next = n + 1
        space.largest = n if space.largest is None else max(space.largest, n)
        return n, ln

    def mk_long(keys, ptype, space, d, dcid, scid, frames_spec, token=None, pad_to=0):
        n, ln = pn(d, space)
        pay, truths, sdata, meta = build_payload(frames_spec, w, max(4 - ln, 0))
        if pad_to and len(pay) < pad_to:
            truths.append({"kind": "PADDING", "n": pad_to - len(pay)})
            pay += bytes(pad_to - len(pay))
        pkt = long_packet(keys, ptype, dcid, scid, n, ln, pay, token=token, len_vl=spec.len_vl, fixed=0 if rng.random() < spec.grease else 1, tok_vl=spec.tok_vl)
        return pkt, PktInfo(space, n, ln, truths), sdata, meta

    def mk_short(keys, d, dcid, frames_spec, phase):
        n, ln = pn(d, "app")
        pay, truths, sdata, meta = build_payload(frames_spec, w, max(4 - ln, 0))
        pkt = short_packet(keys, dcid, n, ln, pay, key_phase=phase, spin=rng.randrange(2), fixed=0 if rng.random() < spec.grease else 1)
        return pkt, PktInfo("app", n, ln, truths, phase, False), sdata, meta

    def emit(d, parts, tail=b""):
        """parts: [(pkt bytes, PktInfo, sdata, meta)]"""
        data = b"".join(p[0] for p in parts) + tail
        dg.append(Dgram(d, data, [p[1] for p in parts], b"".join(p[2] for p in parts), b"".join(p[3] for p in parts)))

    init_dcid = odcid
    tok = spec.token
    info = {"odcid": odcid, "c_scid": c_scid, "s_scid": s_scid, "suite": spec.suite}
    if spec.retry:
        ci, si = refkdf.quic_initial_secrets(odcid)
        KI0 = Keys("sha256", ci, 16, "GCM")
        emit("c", [mk_long(KI0, 0, "init", "c", odcid, c_scid, [("crypto", 0, ch)], token=tok, pad_to=1162)])
        if spec.zero_rtt and spec.zero_rtt_before_retry:
            # the client's first flight already carries 0-RTT data; after the Retry it sends it again (RFC 9000 17.2.5.3) - both input datagrams carry STREAM data
            for frames in spec.zero_rtt[:spec.zero_rtt_before_retry]:
                emit("c", [mk_long(K["early"], 1, "app", "c", odcid, c_scid, [(f[0], f[1], f[2], dict(f[3])) for f in frames])])
        retry_scid = rb(rng.choice([8, 8, 4, 16, 20]))
        tok = rb(rng.randrange(8, 40))
        dg.append(Dgram("s", retry_packet(odcid, c_scid, retry_scid, tok), [PktInfo("retry", -1, 0, [])]))
        init_dcid = retry_scid
        info["retry_scid"] = retry_scid
        ref_keys["initial_before_retry"] = {"c": KI0.material(), "s": Keys("sha256", si, 16, "GCM").material()}
    ci, si = refkdf.quic_initial_secrets(init_dcid)
    KI = {"c": Keys("sha256", ci, 16, "GCM"), "s": Keys("sha256", si, 16, "GCM")}
    ref_keys["initial"] = {"c": KI["c"].material(), "s": KI["s"].material(), "dcid": init_dcid}

    # ---- ClientHello, possibly split / reordered over CRYPTO frames and Initial packets
    cuts = [0] + sorted({c for c in spec.ch_split if 0 < c < len(ch)}) + [len(ch)]
    pieces = [(cuts[i], ch[cuts[i]:cuts[i + 1]]) for i in range(len(cuts) - 1)]
    if spec.ch_order and sorted(spec.ch_order) == list(range(len(pieces))):
        pieces = [pieces[i] for i in spec.ch_order]
    npk = max(1, min(spec.ch_packets, len(pieces)))
    per = [pieces[i::npk] for i in range(npk)]
    zr = list(spec.zero_rtt)
    for gi, grp in enumerate(per):
        part = mk_long(KI["c"], 0, "init", "c", init_dcid, c_scid, [("crypto", o, d) for o, d in grp], token=tok, pad_to=1162 if not (zr and spec.zero_rtt_coalesce and gi == len(per) - 1) else 0)
        parts = [part]
        if zr and spec.zero_rtt_coalesce and gi == len(per) - 1:
            parts.append(mk_long(K["early"], 1, "app", "c", init_dcid, c_scid, zr.pop(0)))
            emit("c", parts, tail=bytes(max(0, 1200 - sum(len(p[0]) for p in parts))))
        else:
            emit("c", parts)
    for frames in zr:
        emit("c", [mk_long(K["early"], 1, "app", "c", init_dcid, c_scid, frames)])
    if spec.crypto_retx in ("ch", "both"):
        for grp in per:
            emit("c", [mk_long(KI["c"], 0, "init", "c", init_dcid, c_scid, [("crypto", o, d) for o, d in grp], token=tok, pad_to=1162)])

    # ---- server flight: Initial(ACK, ServerHello) + Handshake packets (+ 0.5-RTT data)
    p1 = mk_long(KI["s"], 0, "init", "s", c_scid, s_scid, [("raw",) + qf.ack(w, sp[("c", "init")].largest or 0, 0, 0), ("crypto", 0, sh)])
    nsplit = max(1, spec.hs_split)
    edges = [len(s_hs) * i // nsplit for i in range(nsplit + 1)]
    def mk_hs_part(i):
        return mk_long(K["shs"], 2, "hs", "s", c_scid, s_scid, [("crypto", edges[i], s_hs[edges[i]:edges[i + 1]])])
    hs_parts = [mk_hs_part(0)]          # packets are built in the order they are sent: packet numbers follow the order on the wire
    emit("s", [p1, hs_parts[0]])
    if spec.crypto_retx in ("sh", "both"):
        emit("s", [mk_long(KI["s"], 0, "init", "s", c_scid, s_scid, [("crypto", 0, sh)]), mk_hs_part(0)])
    hs_parts += [mk_hs_part(i) for i in range(1, nsplit)]
    phase = {"c": 0, "s": 0}
    cur = {"c": K["cap"], "s": K["sap"]}
    s_dcid_used_by_client = s_scid     # DCID the client puts into its packets
    c_dcid_used_by_server = c_scid
    for i, hp_ in enumerate(hs_parts[1:]):
        last = i == len(hs_parts) - 2
        if last and spec.server_half_rtt:
            half = mk_short(cur["s"], "s", c_dcid_used_by_server, [("stream", 3, rb(rng.randrange(1, 200)), {})], 0)
            emit("s", [hp_, half])
        else:
            emit("s", [hp_])
    if len(hs_parts) == 1 and spec.server_half_rtt:
        emit("s", [mk_short(cur["s"], "s", c_dcid_used_by_server, [("stream", 3, rb(rng.randrange(1, 200)), {})], 0)])

    # ---- client: Initial ACK + Handshake (ACK, Finished) (+ first 1-RTT)
    pa = mk_long(KI["c"], 0, "init", "c", s_scid, c_scid, [("raw",) + qf.ack(w, sp[("s", "init")].largest or 0, 0, 0)])
    pb = mk_long(K["chs"], 2, "hs", "c", s_scid, c_scid, [("raw",) + qf.ack(w, sp[("s", "hs")].largest or 0, 0, 0), ("crypto", 0, c_fin)])
    parts = [pa, pb]
    if spec.coalesce_1rtt_with_hs:
        parts.append(mk_short(cur["c"], "c", s_dcid_used_by_client, [("stream", 0, rb(rng.randrange(1, 300)), {"fin": False})], 0))
    emit("c", parts)
    # ---- server: HANDSHAKE_DONE (+ NEW_TOKEN, tickets in CRYPTO)
    fs = [("raw",) + qf.handshake_done(), ("raw",) + qf.new_token(w, rb(16))]
    coff = 0
    for _ in range(spec.nst):
        t = hs(4, rb(rng.randrange(20, 120)))
        fs.append(("crypto", coff, t))
        coff += len(t)
    emit("s", [mk_short(cur["s"], "s", c_dcid_used_by_server, fs, 0)])
    if spec.late_hs_ack:
        emit("c", [mk_long(K["chs"], 2, "hs", "c", s_scid, c_scid, [("raw",) + qf.ack(w, sp[("s", "hs")].largest or 0, 0, 0)]),
                   mk_short(cur["c"], "c", s_dcid_used_by_client, [("stream", 0, rb(rng.randrange(1, 300)), {"off": 5000, "fin": False})], 0)])

    # ---- application history
    sent_in_phase = {"c": True, "s": True}     # both sides have sent a 1-RTT packet in generation 0 (client: maybe not yet)
    sent_in_phase["c"] = spec.coalesce_1rtt_with_hs or spec.late_hs_ack
    updates_done = []
    pending = {"c": None, "s": None}
    for idx, (d, packets) in enumerate(spec.app):
        o = "s" if d == "c" else "c"
        if idx == spec.new_cid_at:
            new = rb(len(s_scid) if spec.new_cid_len < 0 else spec.new_cid_len) or rb(8)
            # prefix-related CIDs differ in length by >= 4 bytes: with less, the bytes that follow the shorter CID on the wire (protected packet number)
            # equal the longer CID's tail with probability 2^-8k and NO receiver - not even the issuing endpoint - could tell them apart
            if spec.new_cid_prefix == "extend" and len(s_scid) <= 16:
                new = s_scid + rb(rng.randrange(4, 21 - len(s_scid)))
            elif spec.new_cid_prefix == "truncate" and len(s_scid) >= 5:
                new = s_scid[:rng.randrange(1, len(s_scid) - 3)]
            emit("s", [mk_short(cur["s"], "s", c_dcid_used_by_server, [("raw",) + qf.new_connection_id(w, 1, spec.new_cid_retire, new, rb(16))], phase["s"])])
            sent_in_phase["s"] = True
            pending["c"] = [new, spec.new_cid_lag]
            info["new_server_cid"] = new
        if idx == spec.client_new_cid_at:
            new = rb(len(c_scid) if c_scid else 8)
            if spec.new_cid_prefix == "extend" and len(c_scid) <= 16:
                new = c_scid + rb(rng.randrange(4, 21 - len(c_scid)))
            elif spec.new_cid_prefix == "truncate" and len(c_scid) >= 5:
                new = c_scid[:rng.randrange(1, len(c_scid) - 3)]
            emit("c", [mk_short(cur["c"], "c", s_dcid_used_by_client, [("raw",) + qf.new_connection_id(w, 1, spec.new_cid_retire, new, rb(16))], phase["c"])])
            sent_in_phase["c"] = True
            pending["s"] = [new, spec.new_cid_lag]
            info["new_client_cid"] = new
        if idx in spec.key_updates and sent_in_phase["c"] and sent_in_phase["s"]:
            # d initiates (RFC 9001 6.1); the peer's next packet answers in the new phase; a further update needs both to have sent
            for x in "cs":
                cur[x] = cur[x].next_gen()
                phase[x] ^= 1
                sent_in_phase[x] = False
            ref_keys["app"].append({"c": cur["c"].material(), "s": cur["s"].material()})
            updates_done.append((idx, d))
        assert len(packets) == 1, "one short-header packet per datagram"
        if pending[d]:                  # d was issued a new CID by its peer: packets already in flight keep the old one
            if pending[d][1] <= 0:
                if d == "c":
                    s_dcid_used_by_client = pending[d][0]
                else:
                    c_dcid_used_by_server = pending[d][0]
                pending[d] = None
            else:
                pending[d][1] -= 1
                info["old_cid_after_new"] = info.get("old_cid_after_new", 0) + 1
        dcid = c_dcid_used_by_server if d == "s" else s_dcid_used_by_client
        frames = []
        for fr in packets[0]:
            if fr[0] == "nst":          # post-handshake NewSessionTicket in a 1-RTT CRYPTO frame (server only), at the running CRYPTO offset
                if d == "s":
                    t = hs(4, rb(fr[1]))
                    frames.append(("crypto", coff, t))
                    coff += len(t)
            else:
                frames.append(fr)
        if not frames:
            frames = [("raw",) + qf.ping()]
        emit(d, [mk_short(cur[d], d, dcid, frames, phase[d])])
        sent_in_phase[d] = True
    info["key_updates_done"] = updates_done
    last_pn = {}
    for g in dg:        # sender validity: within a packet-number space packets go out in packet-number order (the encoded lengths were chosen for that order)
        for pi in g.packets:
            if pi.pn >= 0:
                assert last_pn.get((g.dir, pi.space), -1) < pi.pn, ("packet numbers out of order on the wire", g.dir, pi.space, pi.pn)
                last_pn[(g.dir, pi.space)] = pi.pn
    info["all_cids"] = [c for c in (info["odcid"], info["c_scid"], info["s_scid"], info.get("retry_scid"), info.get("new_server_cid"), info.get("new_client_cid")) if c]
    info["reordered"] = reorder_on_path(dg, spec.path_swaps, rng) if spec.path_swaps else 0
    expect = [(g.dir, g.stream) for g in dg if g.stream]
    expect_meta = [(g.dir, g.meta) for g in dg if g.meta]
    return QConn(spec, dg, expect, expect_meta, keylog, cr, info, ref_keys)


def reorder_on_path(dg, nswaps, rng):
    """a 1-RTT datagram overtaken on the path by the next datagram of its direction (the capture shows them swapped).  Only swaps after which every packet number
    still decodes (RFC 9000 A.3) against what a receiver has seen by then are made, both packets in the same key phase as their neighbours: the capture stays one
    that the receiving endpoint itself could process.  -> number of swaps made"""
    def only_short(g):
        return len(g.packets) == 1 and not g.packets[0].long and g.packets[0].space == "app"
    made = 0
    for _ in range(nswaps * 4):
        if made >= nswaps:
            break
        idx = [i for i in range(len(dg) - 1) if only_short(dg[i]) and only_short(dg[i + 1]) and dg[i].dir == dg[i + 1].dir
               and dg[i].packets[0].key_phase == dg[i + 1].packets[0].key_phase]
        if not idx:
            break
        i = rng.choice(idx)
        d = dg[i].dir
        same = [g for g in dg if g.dir == d and only_short(g)]
        k = same.index(dg[i])
        if k == 0 or same[k - 1].packets[0].key_phase != dg[i].packets[0].key_phase or (k + 2 < len(same) and same[k + 2].packets[0].key_phase != dg[i].packets[0].key_phase):
            continue
        dg[i], dg[i + 1] = dg[i + 1], dg[i]
        largest, ok = None, True
        for g in dg:
            for pi in g.packets:
                if g.dir == d and pi.space == "app" and pi.pn >= 0:
                    if rfc_decode(largest or 0, pi.pn & ((1 << 8 * pi.pn_len) - 1), 8 * pi.pn_len) != pi.pn:
                        ok = False
                    largest = pi.pn if largest is None else max(largest, pi.pn)
        if not ok:
            dg[i], dg[i + 1] = dg[i + 1], dg[i]
            continue
        made += 1
    return made


# ------------------------------------------------------------------ random specs
def random_app(rng, n, w=None, stream_heavy=True):
    """history of n datagrams; each one short-header packet with a random frame mix around 0..4 STREAM frames on 1..3 streams"""
    w = w or qf.W(rng, "min")
    out = []
    offs = {}
    d = "c"
    nstc = 0
    for i in range(n):
        r = rng.random()
        if r < 0.5:
            d = "s" if d == "c" else "c"
        elif r < 0.6:
            d = rng.choice("cs")
        frames = []
        k = rng.choice([0, 1, 1, 1, 2, 3, 4]) if stream_heavy else rng.choice([0, 0, 1])
        nonstream = ["PADDING", "PING", "ACK", "RESET_STREAM", "STOP_SENDING", "NEW_TOKEN", "MAX_DATA", "MAX_STREAM_DATA", "MAX_STREAMS", "DATA_BLOCKED",
                     "STREAM_DATA_BLOCKED", "STREAMS_BLOCKED", "RETIRE_CONNECTION_ID", "PATH_CHALLENGE", "PATH_RESPONSE", "DATAGRAM", "HANDSHAKE_DONE"]
        for _ in range(rng.choice([0, 0, 1, 2, 4])):
            b, t = qf.random_frame(rng, w, allow=[x for x in nonstream if not (x in ("HANDSHAKE_DONE", "NEW_TOKEN") and d == "c")])
            frames.append(("raw", b, t))
        for j in range(k):
            sid = rng.choice([0, 4, 8]) if d == "c" else rng.choice([0, 1, 3, 5])
            if d == "c" and rng.random() < 0.2:
                sid = 2
            data = rng.randbytes(rng.choice([0, 1, 2, 10, 100, 600, rng.randrange(1, 1100)]))
            off = offs.get((d, sid), 0)
            last = j == k - 1
            kw = {"off": off if (off or rng.random() < 0.3) else None, "fin": rng.random() < 0.1, "explicit_len": True if not last else rng.random() < 0.6}
            offs[(d, sid)] = off + len(data)
            frames.append(("stream", sid, data, kw))
            if not last:
                for _ in range(rng.choice([0, 0, 1])):
                    b, t = qf.random_frame(rng, w, allow=["PADDING", "PING", "ACK", "MAX_DATA", "MAX_STREAM_DATA"])
                    frames.append(("raw", b, t))
        if k and frames[-1][0] == "stream" and frames[-1][3]["explicit_len"] and rng.random() < 0.5:
            b, t = qf.random_frame(rng, w, allow=["PADDING", "PING", "ACK"])
            frames.append(("raw", b, t))
        if d == "s" and rng.random() < 0.12:
            frames.insert(rng.randrange(0, len(frames) + 1) if not (frames and frames[-1][0] == "stream" and not frames[-1][3]["explicit_len"]) else 0, ("nst", rng.randrange(20, 120)))
        if not frames:
            frames.append(("raw",) + qf.ping())
        # keep the packet inside one 1350-byte datagram
        while sum(len(f[1]) if f[0] == "raw" else (f[1] + 12 if f[0] == "nst" else len(f[2]) + 12) for f in frames) > 1300 and len(frames) > 1:
            f = frames.pop(rng.randrange(len(frames)))
        if frames[-1][0] != "stream":
            for f in frames:
                if f[0] == "stream":
                    f[3]["explicit_len"] = True
        out.append((d, [frames]))
        if rng.random() < 0.1:
            # the same message sent twice in a row (a periodic status line, a retried request): two datagrams of one direction whose stream data - and with it
            # everything an exporter rebuilds from it - is byte-identical; only packet number and stream offset differ
            sid = 0 if d == "c" else 3
            data = rng.randbytes(rng.choice([1, 18, 300]))
            for _ in range(2):
                off = offs.get((d, sid), 0)
                out.append((d, [[("stream", sid, data, {"off": off, "fin": False, "explicit_len": rng.random() < 0.5})]]))
                offs[(d, sid)] = off + len(data)
    return out


def bulk_app(rng, n, w=None):
    """a plain transfer: one sender, one stream, one STREAM frame per datagram at contiguous offsets, the peer answering now and then with an ACK-only datagram or a
    short message - what most real QUIC traffic looks like, and the pattern in which a datagram overtaken on the path leaves a hole that is filled exactly"""
    w = w or qf.W(rng, "min")
    d = rng.choice("cs")
    o = "s" if d == "c" else "c"
    sid, osid = (0, 3) if d == "c" else (3, 0)
    out, off, ooff = [], 0, 0
    for i in range(n):
        if i and rng.random() < 0.2:
            if rng.random() < 0.6:
                out.append((o, [[("raw",) + qf.ack(w, rng.randrange(0, 50), 0, 0)]]))
            else:
                msg = rng.randbytes(rng.randrange(1, 40))
                out.append((o, [[("stream", osid, msg, {"off": ooff or None, "fin": False, "explicit_len": True})]]))
                ooff += len(msg)
            continue
        data = rng.randbytes(rng.choice([1, 100, 1000, 1200]))
        out.append((d, [[("stream", sid, data, {"off": off if off or rng.random() < 0.5 else None, "fin": False, "explicit_len": rng.random() < 0.5})]]))
        off += len(data)
    return out


def random_qspec(rng, napp=None, avoid=(), bulk=None):
    """avoid: trigger names of listed open findings that must not be generated (base class)"""
    suite = rng.choice(list(SUITES))
    s = QSpec(suite=suite)
    others = [x for x in SUITES if x != suite] + [0x1305, 0x0a0a, 0xc02f]
    order = rng.choice(["first", "first", "last", "middle", "only", "grease-first"])
    rest = rng.sample(others, rng.randrange(1, 4))
    if "chacha-offered-first" in avoid:
        rest = [x for x in rest if x != 0x1303] or [0x1302 if suite != 0x1302 else 0x1301]
    if order == "first":
        s.offered = tuple([suite] + rest)
    elif order == "last":
        s.offered = tuple(rest + [suite])
    elif order == "middle":
        s.offered = tuple(rest[:1] + [suite] + rest[1:])
    elif order == "only":
        s.offered = (suite,)
    else:
        s.offered = tuple([0x0a0a] + [x for x in rest if x != 0x0a0a] + [suite])
    lens = [0, 1, 4, 8, 8, 16, 20, rng.randrange(0, 21)]
    s.c_scid_len = rng.choice(lens)
    s.s_scid_len = rng.choice(lens)
    if "cid-len-0" in avoid:
        s.c_scid_len = s.c_scid_len or 8
        s.s_scid_len = s.s_scid_len or 8
    if "cid-short" in avoid:
        s.c_scid_len = max(s.c_scid_len, 4)
        s.s_scid_len = max(s.s_scid_len, 4)
    s.odcid_len = rng.choice([8, 8, 12, 20, rng.randrange(8, 21), rng.randrange(0, 21), rng.choice([0, 1, 7])])      # RFC 9000 7.2 demands >= 8 of clients; the properties quantify over 0..20
    s.retry = rng.random() < 0.2
    s.pn_len_mode = rng.choice(["min", "rand", "4"])
    s.pn_gap = rng.choice([0, 0, 3, 300, 70000])
    for d in "cs":
        for sp_ in ("init", "hs", "app"):
            if rng.random() < 0.3:
                s.pn_start[(d, sp_)] = rng.choice([1, 2, 255, 256, 65535, 1 << 20, (1 << 31) - 5, rng.randrange(0, 1 << 31), (1 << 32) - rng.choice([1, 2, 40, 300])])     # the last: the space crosses 2^32 while the connection runs
    s.varint_policy = rng.choice(["min", "min", "rand", 2, 4, 8])
    w = qf.W(rng, s.varint_policy)
    n = napp if napp is not None else rng.choice([0, 1, 2, 5, 12, 30])
    s.app = bulk_app(rng, max(n, 6), w) if (bulk if bulk is not None else rng.random() < 0.12) and n else random_app(rng, n, w)
    if rng.random() < 0.4 and n:
        s.key_updates = tuple(sorted(rng.sample(range(n), min(n, rng.choice([1, 1, 2, 3, 4, 6])))))
    if rng.random() < 0.3 and n and s.s_scid_len:
        s.new_cid_at = rng.randrange(n)
    if rng.random() < 0.15 and n and s.c_scid_len:
        s.client_new_cid_at = rng.randrange(n)
    if (s.new_cid_at >= 0 or s.client_new_cid_at >= 0) and rng.random() < 0.4:
        s.new_cid_prefix = rng.choice(["extend", "truncate"])
    if s.new_cid_at >= 0 or s.client_new_cid_at >= 0:
        s.new_cid_retire = rng.choice([0, 0, 1])
        s.new_cid_lag = rng.choice([0, 0, 1, 2])
    chlen = 260   # approximate; cuts beyond the end are ignored
    if rng.random() < 0.5:
        k = rng.randrange(1, 6)
        s.ch_split = tuple(sorted(rng.sample(range(1, chlen), k)))
        order_ = list(range(k + 1))
        if rng.random() < 0.6 and "crypto-reorder" not in avoid:
            rng.shuffle(order_)
        s.ch_order = tuple(order_)
        s.ch_packets = rng.choice([1, 1, 2, 3])
    if rng.random() < 0.25 and s.offered[0] == suite:
        nz = rng.randrange(1, 4)
        off = 0
        for _ in range(nz):
            data = rng.randbytes(rng.randrange(1, 500))
            s.zero_rtt.append([("stream", 0, data, {"off": off or None})])
            off += len(data)
        s.zero_rtt_coalesce = rng.random() < 0.4
        s.zero_rtt_before_retry = rng.randrange(0, nz + 1) if s.retry else 0
        s.zero_rtt_ext = ["", "accepted", "rejected", "accepted"][(nz + len(s.zero_rtt[0][0][2])) % 4]     # (no draw: the stream of random numbers stays as it was)
    s.coalesce_1rtt_with_hs = rng.random() < 0.3
    s.server_half_rtt = rng.random() < 0.3
    s.hs_split = rng.choice([1, 2, 2, 3])
    s.len_vl = rng.choice([2, 2, 4, 8])
    s.tok_vl = rng.choice([None, None, 2, 4, 8])
    s.nst = rng.choice([0, 0, 1, 2])
    s.token = rng.randbytes(rng.choice([0, 0, 16]))
    s.crypto_retx = rng.choice(["", "", "", "ch", "sh", "both"])
    s.late_hs_ack = rng.random() < 0.25
    s.path_swaps = rng.choice([0, 0, 0, 1, 2])
    if 0 < s.odcid_len < 4:
        # sender validity: an observer keeps the original DCID among the server's connection IDs; a 1..3-byte one that is LONGER than the ID the client really
        # uses afterwards would match the bytes behind it with probability 2^-8..2^-24 per packet, and then nobody without the server's state could tell where
        # the packet number starts (same reasoning as for prefix-related connection IDs). So the server's IDs are at least as long as such a short original DCID.
        s.s_scid_len = max(s.s_scid_len, s.odcid_len)
        if s.new_cid_prefix == "truncate":
            s.new_cid_prefix = ""
        if 0 <= s.new_cid_len < s.odcid_len:
            s.new_cid_len = -1
    return s


def describe(spec: QSpec):
    d = {k: v for k, v in vars(spec).items() if k not in ("app", "zero_rtt")}
    d["suite"] = f"{spec.suite:04X}"
    d["offered"] = [f"{x:04X}" for x in spec.offered]
    d["pn_start"] = {f"{k[0]}/{k[1]}": v for k, v in spec.pn_start.items()}
    d["app"] = [(dd, [[f[0] if f[0] != "raw" else f[2]["kind"] for f in p] for p in pk]) for dd, pk in spec.app][:12]
    d["sh_suite"] = None if spec.sh_suite < 0 else f"{spec.sh_suite:04X}"
    d["zero_rtt_packets"] = len(spec.zero_rtt)
    d["secrets"] = {k: v.hex() for k, v in (spec.secrets or {}).items()}
    return d
