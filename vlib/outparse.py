"""Strict, independent pcapng reader + frame parser + TCP reassembler for the OUTPUT file."""
import struct
from collections import defaultdict

from .netsynth import csum16, pseudo


class Malformed(Exception):
    pass


def read_pcapng(buf):
    """-> list of (ts_us:int, frame bytes). Raises Malformed on any structural problem."""
    if len(buf) < 28:
        raise Malformed("file shorter than a section header block")
    off = 0
    e = None
    ifaces = []
    out = []
    n_blocks = 0
    while off < len(buf):
        if len(buf) - off < 12:
            raise Malformed(f"trailing garbage at {off}")
        btype = struct.unpack_from("<I", buf, off)[0]
        if btype == 0x0A0D0D0A:
            bom = buf[off + 8:off + 12]
            if bom == b"\x4d\x3c\x2b\x1a":
                e = "<"
            elif bom == b"\x1a\x2b\x3c\x4d":
                e = ">"
            else:
                raise Malformed("bad byte-order magic")
            ifaces = []
        elif e is None:
            raise Malformed("first block is not a section header")
        btype, blen = struct.unpack_from(e + "II", buf, off)
        if blen < 12 or blen % 4 or off + blen > len(buf):
            raise Malformed(f"block length {blen} invalid at {off}")
        if struct.unpack_from(e + "I", buf, off + blen - 4)[0] != blen:
            raise Malformed(f"trailing block length mismatch at {off}")
        body = buf[off + 8:off + blen - 4]
        if btype == 1:
            linktype, _, snaplen = struct.unpack_from(e + "HHI", body)
            tsresol = 6
            o = 8
            while o + 4 <= len(body):
                code, ln = struct.unpack_from(e + "HH", body, o)
                if code == 0:
                    break
                if code == 9:
                    tsresol = body[o + 4]
                o += 4 + ln + (-ln) % 4
            ifaces.append((linktype, snaplen, tsresol))
        elif btype == 6:
            if len(body) < 20:
                raise Malformed("short EPB")
            iface, th, tl, caplen, plen = struct.unpack_from(e + "IIIII", body)
            if iface >= len(ifaces):
                raise Malformed(f"EPB references unknown interface {iface}")
            linktype, snaplen, tsresol = ifaces[iface]
            if linktype != 1:
                raise Malformed("linktype is not Ethernet")
            if caplen > len(body) - 20 or caplen > plen:
                raise Malformed("caplen inconsistent")
            if snaplen and caplen > snaplen:
                raise Malformed(f"caplen {caplen} exceeds snaplen {snaplen}")
            if caplen != plen:
                raise Malformed("truncated packet in output")
            if 20 + caplen + (-caplen) % 4 > len(body):
                raise Malformed("EPB padding missing")
            ticks = (th << 32) | tl
            if tsresol & 0x80:
                ts_us = ticks * 10 ** 6 // 2 ** (tsresol & 0x7F)
            else:
                ts_us = ticks * 10 ** 6 // 10 ** tsresol
            out.append((ts_us, bytes(body[20:20 + caplen])))
        n_blocks += 1
        off += blen
    if e is None:
        raise Malformed("no section header")
    return out


class Pkt:
    __slots__ = ("ts", "smac", "dmac", "v6", "src", "dst", "proto", "sport", "dport", "seq", "ack", "flags", "payload", "raw")

    def __repr__(self):
        return f"<{self.ts} {self.src.hex()}:{self.sport}->{self.dst.hex()}:{self.dport} p{self.proto} f{getattr(self, 'flags', None)} {len(self.payload)}B>"


def parse_frame(ts, fr):
    """Strict parse; raises Malformed with reason."""
    p = Pkt()
    p.ts, p.raw = ts, fr
    if len(fr) < 14:
        raise Malformed(f"frame of {len(fr)} bytes is not an Ethernet frame")
    p.dmac, p.smac = fr[0:6], fr[6:12]
    et = struct.unpack_from("!H", fr, 12)[0]
    ip = fr[14:]
    if et == 0x0800:
        if len(ip) < 20 or ip[0] != 0x45:
            raise Malformed("bad IPv4 header")
        tot = struct.unpack_from("!H", ip, 2)[0]
        if tot != len(ip):
            raise Malformed(f"IPv4 total length {tot} != {len(ip)}")
        if csum16(ip[:20]) != 0:
            raise Malformed("IPv4 header checksum wrong")
        if struct.unpack_from("!H", ip, 6)[0] & 0x3FFF:
            raise Malformed("IPv4 fragment")
        p.v6, p.proto, p.src, p.dst = False, ip[9], ip[12:16], ip[16:20]
        l4 = ip[20:]
    elif et == 0x86DD:
        if len(ip) < 40 or ip[0] >> 4 != 6:
            raise Malformed("bad IPv6 header")
        plen = struct.unpack_from("!H", ip, 4)[0]
        if plen != len(ip) - 40:
            raise Malformed(f"IPv6 payload length {plen} != {len(ip) - 40}")
        p.v6, p.proto, p.src, p.dst = True, ip[6], ip[8:24], ip[24:40]
        l4 = ip[40:]
    else:
        raise Malformed(f"ethertype {et:#x}")
    if p.proto == 6:
        if len(l4) < 20:
            raise Malformed("short TCP")
        p.sport, p.dport, p.seq, p.ack, offb, p.flags = struct.unpack_from("!HHIIBB", l4)
        hl = (offb >> 4) * 4
        if hl < 20 or hl > len(l4):
            raise Malformed("bad TCP data offset")
        if csum16(pseudo(p.src, p.dst, 6, len(l4)) + l4) != 0:
            raise Malformed("TCP checksum wrong")
        p.payload = l4[hl:]
    elif p.proto == 17:
        if len(l4) < 8:
            raise Malformed("short UDP")
        p.sport, p.dport, ulen, cs = struct.unpack_from("!HHHH", l4)
        if ulen != len(l4):
            raise Malformed(f"UDP length {ulen} != {len(l4)}")
        if cs == 0 and p.v6:
            raise Malformed("UDP/IPv6 without checksum")
        if cs != 0 and csum16(pseudo(p.src, p.dst, 17, len(l4)) + l4) != 0:
            raise Malformed("UDP checksum wrong")
        p.flags = 0
        p.seq = p.ack = 0
        p.payload = l4[8:]
    else:
        raise Malformed(f"IP protocol {p.proto}")
    return p


def parse_output(buf):
    return [parse_frame(ts, fr) for ts, fr in read_pcapng(buf)]


def flow_key(p):
    a, b = (p.src, p.sport), (p.dst, p.dport)
    return (p.proto,) + ((a, b) if a <= b else (b, a))


def tcp_streams(pkts):
    """Reassemble like a standard receiver. -> {(src,sport,dst,dport): bytes}; raises Malformed on
    gaps/overlaps/missing handshake/inconsistent acks."""
    flows = defaultdict(list)
    for p in pkts:
        if p.proto == 6:
            flows[flow_key(p)].append(p)
    out = {}
    for k, ps in flows.items():
        # conversations inside a flow are delimited by SYN
        st = None
        for p in ps:
            d = (p.src, p.sport, p.dst, p.dport)
            r = (p.dst, p.dport, p.src, p.sport)
            if p.flags & 0x02 and not p.flags & 0x10:
                if st is not None:
                    # the workloads never reuse a 4-tuple, so one exported conversation = one handshake; a second SYN restarts the sequence space inside it
                    raise Malformed(f"second SYN (seq {p.seq}) inside a conversation that is already open")
                st = {"stage": 1, "cli": d, "nxt": {d: (p.seq + 1) & 0xFFFFFFFF}}
                out.setdefault(d, b"")
                out.setdefault(r, b"")
                continue
            if st is None:
                raise Malformed("TCP data before SYN")
            if st["stage"] == 1:
                if not (p.flags & 0x12 == 0x12 and r == st["cli"] and p.ack == st["nxt"][r]):
                    raise Malformed("expected SYN/ACK")
                st["nxt"][d] = (p.seq + 1) & 0xFFFFFFFF
                st["stage"] = 2
                continue
            if st["stage"] == 2:
                if not (p.flags & 0x12 == 0x10 and d == st["cli"] and p.seq == st["nxt"][d] and p.ack == st["nxt"][r] and not p.payload):
                    raise Malformed("expected final handshake ACK")
                st["stage"] = 3
                continue
            if p.seq != st["nxt"][d]:
                raise Malformed(f"TCP sequence gap/overlap: seq {p.seq} expected {st['nxt'][d]}")
            if not p.flags & 0x10 or p.ack != st["nxt"][r]:
                raise Malformed(f"ack {p.ack} inconsistent with peer next {st['nxt'][r]}")
            out[d] += p.payload
            st["nxt"][d] = (p.seq + len(p.payload)) & 0xFFFFFFFF
    return out


def udp_sequences(pkts):
    """-> {flowkey: [(src,sport,dst,dport,payload,ts)]} non-empty datagrams only"""
    out = defaultdict(list)
    for p in pkts:
        if p.proto == 17 and p.payload:
            out[flow_key(p)].append((p.src, p.sport, p.dst, p.dport, p.payload, p.ts))
    return out


class Analysis:
    """Everything the output oracle derives from one output file.

    errors : structural problems (what C06 forbids) - file level, frame level, TCP conversation level
    pkts   : every packet that could be parsed (lenient), in file order
    tcp    : {(src, sport, dst, dport): bytes} payload concatenation per direction in file order (lenient view)
    udp    : {(src, sport, dst, dport): [(ts, payload)]} non-empty datagrams per direction in file order
    """

    def __init__(self, buf):
        self.errors = []
        self.pkts = []
        self.tcp = {}
        self.udp = {}
        self.order = []       # [(proto, dirkey, ts, payload)] payload-bearing packets in file order
        self.nframes = 0
        if buf is None:
            self.errors.append("no output file")
            return
        try:
            frames = read_pcapng(buf)
        except Malformed as e:
            self.errors.append(f"pcapng: {e}")
            try:
                frames = read_pcapng_lenient(buf)
            except Exception:
                frames = []
        except Exception as e:   # struct.error etc.
            self.errors.append(f"pcapng: {e!r}")
            frames = []
        self.nframes = len(frames)
        for i, (ts, fr) in enumerate(frames):
            try:
                p = parse_frame(ts, fr)
            except Malformed as e:
                self.errors.append(f"packet {i}: {e}")
                continue
            except Exception as e:
                self.errors.append(f"packet {i}: {e!r}")
                continue
            self.pkts.append(p)
            d = (p.src, p.sport, p.dst, p.dport)
            if p.proto == 6:
                self.tcp.setdefault(d, b"")
                self.tcp.setdefault((p.dst, p.dport, p.src, p.sport), b"")
                if p.payload:
                    self.tcp[d] += p.payload
                    self.order.append((6, d, p.ts, p.payload))
            elif p.proto == 17 and p.payload:
                self.udp.setdefault(d, []).append((p.ts, p.payload))
                self.order.append((17, d, p.ts, p.payload))
        try:
            strict = tcp_streams(self.pkts)
            for k, v in strict.items():
                if self.tcp.get(k, b"") != v:
                    self.errors.append(f"tcp {k[1]}->{k[3]}: strict reassembly differs from file-order concatenation")
        except Malformed as e:
            self.errors.append(f"tcp: {e}")

    def tcp_stream(self, src, sport, dst, dport):
        return self.tcp.get((src, sport, dst, dport))

    def tcp_flows(self):
        return sorted({flow_key(p) for p in self.pkts if p.proto == 6})


def read_pcapng_lenient(buf):
    """best effort: walk blocks, skip what cannot be read"""
    out = []
    off = 0
    e = "<"
    while off + 12 <= len(buf):
        if buf[off:off + 4] == b"\x0a\x0d\x0d\x0a":
            e = "<" if buf[off + 8:off + 12] == b"\x4d\x3c\x2b\x1a" else ">"
        btype, blen = struct.unpack_from(e + "II", buf, off)
        if blen < 12 or off + blen > len(buf):
            break
        body = buf[off + 8:off + blen - 4]
        if btype == 6 and len(body) >= 20:
            iface, th, tl, caplen, plen = struct.unpack_from(e + "IIIII", body)
            out.append((((th << 32) | tl), bytes(body[20:20 + caplen])))
        off += blen + (-blen) % 4
    return out
