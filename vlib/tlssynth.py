"""Synthetic TLS-over-TCP connections: a reference pair of endpoints that *send* (SSL 3.0 .. TLS 1.3).

build_conn(spec, rng) -> Conn with
  .events     [Ev] in send order; Ev.dir 'c'|'s', Ev.wire = full record bytes, Ev.kind in hs|ccs|ehs|app|alert|eapp-alert,
              Ev.plain = application plaintext (kind app) or plaintext of an encrypted handshake/alert record, Ev.woff = offset of the record
              in that direction's wire byte stream, Ev.poff = offset of its plaintext in that direction's application byte stream
  .keylog     NSS key log lines
  .truth      {'c': bytes, 's': bytes}  application data each endpoint sent
  .ref_keys   key material by the independent reference KDFs (for C15)
No import of tlexport.*; KDFs on hashlib/hmac only (refkdf); record protection in refrec.
"""
import hashlib
from dataclasses import dataclass, field

from . import refkdf, refrec, suites


def hs(t, body):
    return bytes([t]) + len(body).to_bytes(3, "big") + body


def ext(t, body):
    return t.to_bytes(2, "big") + len(body).to_bytes(2, "big") + body


@dataclass
class Spec:
    version: int = 0x0303          # negotiated
    suite: int = 0xC02F
    resumed: bool = False
    sid_len: int = 32
    etm: bool = False              # encrypt-then-MAC negotiated (only meaningful for CBC suites, TLS >= 1.0)
    ems: bool = True
    extra_exts: int = 0            # unknown extensions in ServerHello
    server_ext: bool = True        # ServerHello carries an extensions block at all (TLS 1.0-1.2)
    group_server_flight: tuple = (1, 1, 1, 1)   # how the server's handshake messages are packed into records
    hs_secrets: object = True      # TLS 1.3: handshake secrets present in key log: True | False | "client" | "server" (only that side's)
    explicit_nonce: str = "seq"    # TLS 1.2 GCM/CCM explicit nonce: "seq" (= sequence number) | "random" | "counter" (random start, incremented)
    ccs13: bool = True             # TLS 1.3 middlebox-compatibility CCS
    pad13_max: int = 0             # TLS 1.3 record padding 0..pad13_max zero bytes per record
    tickets: int = 0               # post-handshake NewSessionTicket (1.3: anywhere in the history; <=1.2: before server CCS)
    app: list = field(default_factory=list)     # [(dir, bytes)] history of application records
    alert_end: bool = False        # final close_notify by the client
    cert_len: int = 300
    extra_pad_blocks: int = 0      # TLS >= 1.0 CBC: extra whole blocks of padding (<= 255 bytes total)
    offered: tuple = ()            # other suites offered in ClientHello besides the selected one
    use_rsa_label: bool = False    # <= 1.2: log the pre-master secret ("RSA <enc-pms-prefix> <pms>") - not generated (needs the encrypted PMS)
    hrr: bool = False              # TLS 1.3 only: ClientHello, HelloRetryRequest, second ClientHello (same random) - NOT in C01's claimed domain; used where "whatever the input" is claimed (C06)
    keylog_extra: bool = True      # EXPORTER_SECRET etc. lines present
    shuffle_exts: bool = False     # ServerHello extensions in random order
    master: bytes = None           # <= 1.2: use this master secret (a resumption shares it with the session it resumes; randoms are fresh)
    warn_alert: bool = False       # <= 1.2: the server sends a plaintext warning alert (unrecognized_name) right after its ServerHello record(s)
    compress: bool = False         # <= 1.2: DEFLATE compression negotiated (RFC 3749) - NOT in C01's claimed domain; used by C13 for the with/without -a comparison only
    secrets13: dict = None         # TLS 1.3: use these traffic secrets ({"chs"|"shs"|"cap"|"sap": bytes}) instead of random ones (C15 picks secrets whose keys have edge values)
    cert_trap: bool = False        # Certificate body that reads as extensions 0x0016 / 0x002b=0304 to a parser that walks past the ServerHello
    client_auth: bool = False      # full handshakes only: the server asks for a client certificate (CertificateRequest); the client sends Certificate (+ CertificateVerify)
    group_client_flight: tuple = (1, 1, 1)      # how the client's handshake messages (client_auth: Certificate, [ClientKeyExchange,] CertificateVerify[, Finished]) are packed into records
    ch_pad: int = 0                # ClientHello padding extension (RFC 7685) of this many bytes: a hello of several TCP segments (TLS >= 1.0)


@dataclass
class Ev:
    dir: str
    wire: bytes
    kind: str
    plain: bytes = None
    woff: int = 0
    poff: int = 0
    ctype: int = 22


@dataclass
class Conn:
    spec: Spec
    events: list
    keylog: list
    truth: dict
    ref_keys: dict
    client_random: bytes
    server_random: bytes
    params: dict
    master: bytes = None


def pack_records(msgs, grouping, wire_ver):
    out = []
    i = 0
    for g in grouping:
        if i >= len(msgs):
            break
        out.append(refrec.plain_record(22, wire_ver, b"".join(msgs[i:i + g])))
        i += g
    while i < len(msgs):
        out.append(refrec.plain_record(22, wire_ver, msgs[i]))
        i += 1
    return out


def _finish(spec, ev, keylog, truth, ref_keys, cr, sr, p, master=None):
    woff = {"c": 0, "s": 0}
    poff = {"c": 0, "s": 0}
    for e in ev:
        e.woff = woff[e.dir]
        woff[e.dir] += len(e.wire)
        e.ctype = e.wire[0]
        if e.kind == "app":
            e.poff = poff[e.dir]
            poff[e.dir] += len(e.plain)
    assert poff["c"] == len(truth["c"]) and poff["s"] == len(truth["s"])
    for e in ev:   # sender validity: record length fields consistent, fragment <= 2^14 + 2048
        n = int.from_bytes(e.wire[3:5], "big")
        assert n + 5 == len(e.wire) and n <= 16384 + 2048, (e.kind, n)
    return Conn(spec, ev, keylog, truth, ref_keys, cr, sr, p, master)


def build_conn(spec: Spec, rng) -> Conn:
    name = suites.REGISTRY[spec.suite]
    p = suites.parse_name(name)
    v = spec.version
    assert v in suites.valid_versions(p), (hex(v), name)
    rb = rng.randbytes
    cr, sr = rb(32), rb(32)
    sid = rb(spec.sid_len)
    ev = []
    truth = {"c": b"", "s": b""}
    keylog = []
    suite_b = spec.suite.to_bytes(2, "big")
    wire = (0x0303 if v == 0x0304 else v).to_bytes(2, "big")
    legacy = min(v, 0x0303).to_bytes(2, "big")

    # ---------------- ClientHello
    offer = list(spec.offered) + [spec.suite]
    rng.shuffle(offer)
    offered = b"".join(s.to_bytes(2, "big") for s in offer) + b"\x00\xff"
    deflate = bool(spec.compress) and v != 0x0304
    ch = legacy + cr + bytes([len(sid)]) + sid + len(offered).to_bytes(2, "big") + offered + (b"\x02\x01\x00" if deflate else b"\x01\x00")
    if v != 0x0300:
        ce = ext(0, b"\x00\x0e\x00\x00\x0bexample.com") + ext(0x0017, b"") + ext(0x0016, b"")
        if v == 0x0304:
            ce += ext(0x002b, b"\x02\x03\x04") + ext(0x0033, b"\x00\x24\x00\x1d\x00\x20" + rb(32))
        if spec.ch_pad:
            ce += ext(0x0015, bytes(spec.ch_pad))
        ch += len(ce).to_bytes(2, "big") + ce
    ch_wire = b"\x03\x01" if v >= 0x0301 else b"\x03\x00"
    ev.append(Ev("c", refrec.plain_record(22, ch_wire, hs(1, ch)), "hs"))
    if spec.hrr and v == 0x0304:
        hrr_random = hashlib.sha256(b"HelloRetryRequest").digest()
        hrr = legacy + hrr_random + bytes([len(sid)]) + sid + suite_b + b"\x00"
        he = ext(0x002b, b"\x03\x04") + ext(0x0033, b"\x00\x18")
        ev.append(Ev("s", refrec.plain_record(22, wire, hs(2, hrr + len(he).to_bytes(2, "big") + he)), "hs"))
        if spec.ccs13:
            ev.append(Ev("s", refrec.plain_record(20, wire, b"\x01"), "ccs"))
            ev.append(Ev("c", refrec.plain_record(20, wire, b"\x01"), "ccs"))
        ce2 = ext(0, b"\x00\x0e\x00\x00\x0bexample.com") + ext(0x002b, b"\x02\x03\x04") + ext(0x0033, b"\x00\x65\x00\x18\x00\x61" + rb(97))
        ch2 = legacy + cr + bytes([len(sid)]) + sid + len(offered).to_bytes(2, "big") + offered + b"\x01\x00" + len(ce2).to_bytes(2, "big") + ce2
        ev.append(Ev("c", refrec.plain_record(22, wire, hs(1, ch2)), "hs"))

    # ---------------- ServerHello
    se = b""
    if v == 0x0304:
        se += ext(0x002b, b"\x03\x04") + ext(0x0033, b"\x00\x1d\x00\x20" + rb(32))
    elif v != 0x0300:
        if spec.etm and p["mode"] == "CBC":
            se += ext(0x0016, b"")
        if spec.ems:
            se += ext(0x0017, b"")
        se += ext(0xFF01, b"\x00")
    if v != 0x0300:
        for i in range(spec.extra_exts):
            se += ext(0x7000 + i, rb(rng.randrange(0, 9)))
        if spec.shuffle_exts:
            # extension order is free (RFC 5246 7.4.1.4): any of them - also an empty one such as encrypt_then_mac - may come last
            parts, o = [], 0
            while o < len(se):
                n = 4 + int.from_bytes(se[o + 2:o + 4], "big")
                parts.append(se[o:o + n])
                o += n
            rng.shuffle(parts)
            se = b"".join(parts)
    sh = legacy + sr + bytes([len(sid)]) + sid + suite_b + (b"\x01" if deflate else b"\x00")
    has_ext = v == 0x0304 or (v != 0x0300 and spec.server_ext)
    if has_ext:
        sh += len(se).to_bytes(2, "big") + se
    etm = bool(spec.etm and p["mode"] == "CBC" and v not in (0x0300, 0x0304) and has_ext)

    if v == 0x0304:
        hname = p["prf"]
        hl = hashlib.new(hname).digest_size
        sec = {k: rb(hl) for k in ("chs", "shs", "cap", "sap", "exp")}
        sec.update(spec.secrets13 or {})
        if spec.hs_secrets in (True, "client"):
            keylog.append(f"CLIENT_HANDSHAKE_TRAFFIC_SECRET {cr.hex()} {sec['chs'].hex()}")
        if spec.hs_secrets in (True, "server"):
            keylog.append(f"SERVER_HANDSHAKE_TRAFFIC_SECRET {cr.hex()} {sec['shs'].hex()}")
        if spec.keylog_extra:
            keylog.append(f"EXPORTER_SECRET {cr.hex()} {sec['exp'].hex()}")
        keylog.append(f"CLIENT_TRAFFIC_SECRET_0 {cr.hex()} {sec['cap'].hex()}")
        keylog.append(f"SERVER_TRAFFIC_SECRET_0 {cr.hex()} {sec['sap'].hex()}")
        if spec.keylog_extra and cr[0] % 4 == 0:
            # a client that offered early data (and sent none, or was refused): libraries log its early traffic secret - and the early exporter secret - under the same
            # client random when the ClientHello goes out, i.e. first; tools that merge or sort key logs put them anywhere
            early = [f"CLIENT_EARLY_TRAFFIC_SECRET {cr.hex()} {hashlib.new(hname, cr).digest().hex()}"] + ([f"EARLY_EXPORTER_SECRET {cr.hex()} {hashlib.new(hname, sr).digest().hex()}"] if cr[2] % 2 else [])
            at = [0, 0, len(keylog), len(keylog) - 1][cr[1] % 4]
            keylog[at:at] = early
        k = {n: refkdf.tls13_traffic_keys(hname, s, p["key_len"]) for n, s in sec.items() if n != "exp"}
        cw = refrec.Writer(v, p, k["chs"][0], k["chs"][1], None, rng)
        sw = refrec.Writer(v, p, k["shs"][0], k["shs"][1], None, rng)
        ref_keys = {"client_hs": k["chs"], "server_hs": k["shs"], "client_app": k["cap"], "server_app": k["sap"], "secrets": sec}

        def pad():
            return rng.randrange(0, spec.pad13_max + 1) if spec.pad13_max else 0

        def enc(w, d, ctype, body, kind, plain=None):
            ev.append(Ev(d, w.protect(ctype, body, pad13=pad()), kind, plain if plain is not None else body))

        ev.append(Ev("s", refrec.plain_record(22, wire, hs(2, sh)), "hs"))
        if spec.ccs13:
            ev.append(Ev("s", refrec.plain_record(20, wire, b"\x01"), "ccs"))
        flight = [hs(8, b"\x00\x00")]
        cauth = spec.client_auth and not spec.resumed
        if cauth:
            flight.append(hs(13, b"\x00\x00\x08\x00\x0d\x00\x04\x00\x02\x08\x04"))
        if not spec.resumed:
            flight += [hs(11, b"\x00" + rb(spec.cert_len)), hs(15, b"\x08\x04\x00\x40" + rb(64))]
        flight.append(hs(20, rb(hl)))
        i = 0
        for g in list(spec.group_server_flight) + [1] * len(flight):
            if i >= len(flight):
                break
            enc(sw, "s", 22, b"".join(flight[i:i + g]), "ehs")
            i += g
        sw.rekey(*k["sap"])
        if spec.ccs13:
            ev.append(Ev("c", refrec.plain_record(20, wire, b"\x01"), "ccs"))
        cflight = ([hs(11, b"\x00" + rb(rng.choice([3, 200, 900]))), hs(15, b"\x08\x04\x00\x40" + rb(64))] if cauth else []) + [hs(20, rb(hl))]
        i = 0
        for g in list(spec.group_client_flight) + [1] * len(cflight):
            if i >= len(cflight):
                break
            enc(cw, "c", 22, b"".join(cflight[i:i + g]), "ehs")
            i += g
        cw.rekey(*k["cap"])
        tick_at = sorted(rng.randrange(0, len(spec.app) + 1) for _ in range(spec.tickets))
        for idx, (d, data) in enumerate(spec.app):
            while tick_at and tick_at[0] <= idx:
                tick_at.pop(0)
                enc(sw, "s", 22, hs(4, rb(40)), "ehs")
            enc(cw if d == "c" else sw, d, 23, data, "app")
            truth[d] += data
        for _ in tick_at:
            enc(sw, "s", 22, hs(4, rb(40)), "ehs")
        if spec.alert_end:
            enc(cw, "c", 21, b"\x01\x00", "alert")
        return _finish(spec, ev, keylog, truth, ref_keys, cr, sr, p)

    # ---------------- SSL3 .. TLS1.2
    master = spec.master if spec.master is not None else rb(48)
    keylog.append(f"CLIENT_RANDOM {cr.hex()} {master.hex()}")
    if spec.keylog_extra and cr[0] % 4 == 0:
        # a client that offered early data and was answered with TLS <= 1.2: its early traffic secret is in the log under the same client random
        # (OpenSSL and NSS write it when the ClientHello is sent), before or after the master-secret line
        keylog.insert(cr[1] % 2, f"CLIENT_EARLY_TRAFFIC_SECRET {cr.hex()} {hashlib.sha256(cr).digest().hex()}")
    if p["aead"]:
        iv_len = 12 if p["mode"] == "CHACHA" else 4
    elif p["mode"] == "CBC" and v <= 0x0301:
        iv_len = p["block"]
    else:
        iv_len = 0
    kb = refkdf.key_block(v, p["prf"], master, cr, sr, 2 * p["mac_len"] + 2 * p["key_len"] + 2 * iv_len)
    k = refkdf.split_key_block(kb, p["mac_len"], p["key_len"], iv_len)
    cw = refrec.Writer(v, p, k["client_key"], k["client_iv"], k["client_mac"], rng, etm)
    sw = refrec.Writer(v, p, k["server_key"], k["server_iv"], k["server_mac"], rng, etm)
    fin_len = 36 if v == 0x0300 else 12
    if deflate:
        import zlib
        cw.deflate, sw.deflate = zlib.compressobj(), zlib.compressobj()

    nonce_ctr = {"c": rng.getrandbits(64), "s": rng.getrandbits(64)}

    def penc(w, d, ctype, body, kind):
        en = None
        if p["aead"] and p["mode"] != "CHACHA" and spec.explicit_nonce != "seq":
            if spec.explicit_nonce == "random":
                en = rb(8)
            else:
                nonce_ctr[d] = (nonce_ctr[d] + 1) % (1 << 64)
                en = nonce_ctr[d].to_bytes(8, "big")
        ev.append(Ev(d, w.protect(ctype, body, extra_pad_blocks=spec.extra_pad_blocks if v != 0x0300 else 0, explicit_nonce=en), kind, body))

    if spec.resumed:
        ev.append(Ev("s", refrec.plain_record(22, wire, hs(2, sh)), "hs"))
        if spec.tickets and v != 0x0300:
            ev.append(Ev("s", refrec.plain_record(22, wire, hs(4, rb(50))), "hs"))     # RFC 5077 3.1: a resumption that issues a new ticket
        ev.append(Ev("s", refrec.plain_record(20, wire, b"\x01"), "ccs"))
        penc(sw, "s", 22, hs(20, rb(fin_len)), "ehs")
        ev.append(Ev("c", refrec.plain_record(20, wire, b"\x01"), "ccs"))
        penc(cw, "c", 22, hs(20, rb(fin_len)), "ehs")
    else:
        cert = b"\x00" + rb(spec.cert_len)
        if spec.cert_trap:
            cert = bytes([0, 4]) + rb(4) + b"\x00\x16\x00\x00" + b"\x00\x2b\x00\x02\x03\x04" + rb(max(0, spec.cert_len - 16))
        msgs = [hs(2, sh), hs(11, cert), hs(12, rb(70))] + ([hs(13, b"\x01\x40\x00\x02\x04\x01\x00\x00")] if spec.client_auth else []) + [hs(14, b"")]
        for ri, r in enumerate(pack_records(msgs, spec.group_server_flight, wire)):
            ev.append(Ev("s", r, "hs"))
            if ri == 0 and spec.warn_alert:
                ev.append(Ev("s", refrec.plain_record(21, wire, b"\x01\x70"), "alert", b"\x01\x70"))
        cmsgs = [hs(16, rb(66))]
        if spec.client_auth:
            cmsgs = [hs(11, b"\x00" + rb(rng.choice([3, 200, 900]))), hs(16, rb(66)), hs(15, rb(66))]
        for r in pack_records(cmsgs, spec.group_client_flight, wire):
            ev.append(Ev("c", r, "hs"))
        ev.append(Ev("c", refrec.plain_record(20, wire, b"\x01"), "ccs"))
        penc(cw, "c", 22, hs(20, rb(fin_len)), "ehs")
        if spec.tickets:
            ev.append(Ev("s", refrec.plain_record(22, wire, hs(4, rb(50))), "hs"))
        ev.append(Ev("s", refrec.plain_record(20, wire, b"\x01"), "ccs"))
        penc(sw, "s", 22, hs(20, rb(fin_len)), "ehs")
    for d, data in spec.app:
        penc(cw if d == "c" else sw, d, 23, data, "app")
        truth[d] += data
    if spec.alert_end:
        penc(cw, "c", 21, b"\x01\x00", "alert")
    k = dict(k)
    k["iv_len"] = iv_len
    return _finish(spec, ev, keylog, truth, k, cr, sr, p, master)


# ------------------------------------------------------------------ random specs
BOUNDARY_LENS = [0, 1, 2, 7, 8, 15, 16, 17, 31, 32, 33, 100, 255, 256, 1000, 1460, 1461, 4096, 16383, 16384]


def random_history(rng, nmax=40, big=True, pattern=None):
    """[(dir, bytes)] ; lengths biased to block/record boundaries; direction patterns: ping-pong, one-sided runs, server-first, 1/n-1 split"""
    n = rng.choice([0, 1, 2, 3, 5, 8, 13, nmax // 2, nmax]) if nmax > 13 else rng.randrange(0, nmax + 1)
    pattern = pattern or rng.choice(["pingpong", "runs", "server-first", "split", "random", "client-only", "server-only"])
    out = []
    d = "s" if pattern in ("server-first", "server-only") else "c"
    budget = 60000 if big else 6000
    for i in range(n):
        if pattern == "pingpong":
            d = "cs"[i % 2]
        elif pattern == "runs":
            if rng.random() < 0.15:
                d = "s" if d == "c" else "c"
        elif pattern in ("random", "server-first"):
            if i:
                d = rng.choice("cs")
        elif pattern == "split":
            d = rng.choice("cs")
        r = rng.random()
        if r < 0.45:
            ln = rng.choice(BOUNDARY_LENS[:14])
        elif r < 0.6 and big:
            ln = rng.choice(BOUNDARY_LENS)
        else:
            ln = rng.randrange(0, 600)
        ln = min(ln, max(0, budget))
        budget -= ln
        data = rng.randbytes(ln)
        if pattern == "split" and ln > 1:   # BEAST countermeasure shape: 1 / n-1
            out.append((d, data[:1]))
            out.append((d, data[1:]))
        else:
            out.append((d, data))
            if 0 < ln <= 600 and (ln + i) % 9 == 0:
                out.append((d, data))       # the same message sent twice in a row: two records with identical plaintext
    return out, pattern


def random_spec(rng, version, code, nmax=40, big=True, avoid=()):
    """avoid: iterable of trigger names of listed findings not to generate"""
    p = suites.parse_name(suites.REGISTRY[code])
    app, pattern = random_history(rng, nmax, big)
    s = Spec(version=version, suite=code, app=app)
    s.resumed = rng.random() < 0.3
    s.sid_len = rng.choice([0, 0, 1, 16, 31, 32, rng.randrange(0, 33)])
    s.etm = rng.random() < 0.4
    s.ems = rng.random() < 0.6
    s.extra_exts = rng.choice([0, 0, 1, 3])
    s.server_ext = rng.random() < 0.85
    nmsg = 4
    comp = []
    left = nmsg
    while left > 0:
        g = rng.randrange(1, left + 1)
        comp.append(g)
        left -= g
    s.group_server_flight = tuple(comp)
    s.hs_secrets = rng.choice([True, True, True, True, True, False, "client", "server"])
    s.explicit_nonce = rng.choice(["seq", "seq", "random", "counter"])
    s.ccs13 = rng.random() < 0.7
    s.pad13_max = rng.choice([0, 0, 1, 16, 255])
    s.tickets = rng.choice([0, 0, 1, 2])
    s.alert_end = rng.random() < 0.3
    s.cert_len = rng.choice([10, 300, 1500, 5000])
    s.extra_pad_blocks = rng.choice([0, 0, 0, 1, 3, 15])
    s.offered = tuple(rng.sample(suites.SUPPORTED, rng.randrange(0, 4)))
    s.keylog_extra = rng.random() < 0.7
    s.cert_trap = rng.random() < 0.3
    s.warn_alert = rng.random() < 0.15
    s.shuffle_exts = rng.random() < 0.6
    # drawn last so that the draws above keep their place in the stream
    if rng.random() < 0.25 and not s.resumed:
        s.client_auth = True
        s.group_client_flight = rng.choice([(1, 1, 1), (3,), (2, 1), (1, 2)])
        comp, left = [], 5
        while left > 0:
            g = rng.randrange(1, left + 1)
            comp.append(g)
            left -= g
        s.group_server_flight = tuple(comp)
    if rng.random() < 0.2:
        s.ch_pad = rng.choice([1, 200, 1300, 1700, 3000])
    classes = dict(pattern=pattern, nrec=len(app))
    return s, classes
