"""Synthetic TLS-over-TCP connections: a reference pair of endpoints that *send*.

build_conn(spec, rng) -> Conn with
  .events   : [(dir, record_bytes, kind, plaintext)] in send order  (dir 'c'|'s')
  .keylog   : [str]  NSS key log lines
  .truth    : {'c': bytes, 's': bytes}  application data each endpoint sent
  .ref_keys : independent key material (for C15)
"""
import hashlib
from dataclasses import dataclass, field

from . import refkdf, refrec, suites


def hs(t, body):
    return bytes([t]) + len(body).to_bytes(3, "big") + body


def ext(t, body):
    return t.to_bytes(2, "big") + len(body).to_bytes(2, "big") + body


def rb(rng, n):
    return rng.randbytes(n)


@dataclass
class Spec:
    version: int = 0x0303          # negotiated
    suite: int = 0xC02F
    suite_name: str = ""
    resumed: bool = False
    sid_len: int = 32
    etm: bool = False
    ems: bool = True
    extra_exts: int = 0            # unknown extensions in ServerHello
    server_ext: bool = True        # ServerHello carries an extensions block at all
    group_server_flight: tuple = (1, 1, 1, 1)   # how handshake messages are packed into records
    hs_secrets: bool = True        # TLS1.3: handshake secrets present in key log
    ccs13: bool = True
    pad13_max: int = 0
    tickets: int = 0
    app: list = field(default_factory=list)     # [(dir, bytes)]
    alert_end: bool = False
    cert_len: int = 300
    extra_pad_blocks: int = 0


@dataclass
class Conn:
    spec: Spec
    events: list
    keylog: list
    truth: dict
    ref_keys: dict
    client_random: bytes


def pack_records(msgs, grouping, wire_ver):
    """msgs: list of handshake messages; grouping: tuple of counts"""
    out = []
    i = 0
    for g in grouping:
        if i >= len(msgs):
            break
        out.append(refrec.plain_record(22, wire_ver, b"".join(msgs[i:i + g])))
        i += g
    while i < len(msgs):
        out.append(refrec.plain_record(22, wire_ver, msgs[i]))
        i += 1
    return out


def build_conn(spec: Spec, rng) -> Conn:
    p = suites.parse_name(spec.suite_name)
    v = spec.version
    cr, sr = rb(rng, 32), rb(rng, 32)
    sid = rb(rng, spec.sid_len)
    ev = []
    truth = {"c": b"", "s": b""}
    keylog = []
    suite_b = spec.suite.to_bytes(2, "big")
    wire = (0x0303 if v == 0x0304 else v).to_bytes(2, "big")
    legacy = min(v, 0x0303).to_bytes(2, "big")

    # ---------------- ClientHello
    offered = b"".join(s.to_bytes(2, "big") for s in [0x1301, 0x00FF, spec.suite, 0x002F])
    ch = legacy + cr + bytes([len(sid)]) + sid + len(offered).to_bytes(2, "big") + offered + b"\x01\x00"
    if v != 0x0300:
        ce = ext(0, b"\x00\x0e\x00\x00\x0bexample.com") + ext(0x0017, b"") + ext(0x0016, b"")
        if v == 0x0304:
            ce += ext(0x002b, b"\x02\x03\x04") + ext(0x0033, b"\x00\x24\x00\x1d\x00\x20" + rb(rng, 32))
        ch += len(ce).to_bytes(2, "big") + ce
    ch_wire = b"\x03\x01" if v >= 0x0301 else b"\x03\x00"
    ev.append(("c", refrec.plain_record(22, ch_wire, hs(1, ch)), "hs", None))

    # ---------------- ServerHello
    se = b""
    if v == 0x0304:
        se += ext(0x002b, b"\x03\x04") + ext(0x0033, b"\x00\x1d\x00\x20" + rb(rng, 32))
    elif v != 0x0300:
        if spec.etm and p["mode"] == "CBC":
            se += ext(0x0016, b"")
        if spec.ems:
            se += ext(0x0017, b"")
        se += ext(0xFF01, b"\x00")
    for i in range(spec.extra_exts):
        se += ext(0x7000 + i, rb(rng, rng.randrange(0, 9)))
    sh = legacy + sr + bytes([len(sid)]) + sid + suite_b + b"\x00"
    if v == 0x0304 or (v != 0x0300 and spec.server_ext):
        sh += len(se).to_bytes(2, "big") + se
    etm = spec.etm and p["mode"] == "CBC" and v not in (0x0300, 0x0304) and spec.server_ext

    if v == 0x0304:
        hname = p["prf"]
        hl = hashlib.new(hname).digest_size
        sec = {k: rb(rng, hl) for k in ("chs", "shs", "cap", "sap", "exp")}
        if spec.hs_secrets:
            keylog.append(f"CLIENT_HANDSHAKE_TRAFFIC_SECRET {cr.hex()} {sec['chs'].hex()}")
            keylog.append(f"SERVER_HANDSHAKE_TRAFFIC_SECRET {cr.hex()} {sec['shs'].hex()}")
        keylog.append(f"EXPORTER_SECRET {cr.hex()} {sec['exp'].hex()}")
        keylog.append(f"CLIENT_TRAFFIC_SECRET_0 {cr.hex()} {sec['cap'].hex()}")
        keylog.append(f"SERVER_TRAFFIC_SECRET_0 {cr.hex()} {sec['sap'].hex()}")
        k = {n: refkdf.tls13_traffic_keys(hname, s, p["key_len"]) for n, s in sec.items() if n != "exp"}
        cw = refrec.Writer(v, p, k["chs"][0], k["chs"][1], None, rng)
        sw = refrec.Writer(v, p, k["shs"][0], k["shs"][1], None, rng)
        ref_keys = {"client_hs": k["chs"], "server_hs": k["shs"], "client_app": k["cap"], "server_app": k["sap"]}

        def pad():
            return rng.randrange(0, spec.pad13_max + 1) if spec.pad13_max else 0

        ev.append(("s", refrec.plain_record(22, wire, hs(2, sh)), "hs", None))
        if spec.ccs13:
            ev.append(("s", refrec.plain_record(20, wire, b"\x01"), "ccs", None))
        flight = [hs(8, b"\x00\x00")]
        if not spec.resumed:
            flight += [hs(11, b"\x00" + rb(rng, spec.cert_len)), hs(15, b"\x08\x04\x00\x40" + rb(rng, 64))]
        flight.append(hs(20, rb(rng, hl)))
        i = 0
        for g in list(spec.group_server_flight) + [1] * len(flight):
            if i >= len(flight):
                break
            ev.append(("s", sw.protect(22, b"".join(flight[i:i + g]), pad13=pad()), "ehs", None))
            i += g
        sw.rekey(*k["sap"])
        if spec.ccs13:
            ev.append(("c", refrec.plain_record(20, wire, b"\x01"), "ccs", None))
        ev.append(("c", cw.protect(22, hs(20, rb(rng, hl)), pad13=pad()), "ehs", None))
        cw.rekey(*k["cap"])
        tick_at = sorted(rng.randrange(0, len(spec.app) + 1) for _ in range(spec.tickets))
        for idx, (d, data) in enumerate(spec.app):
            while tick_at and tick_at[0] <= idx:
                tick_at.pop(0)
                ev.append(("s", sw.protect(22, hs(4, rb(rng, 40)), pad13=pad()), "ehs", None))
            w = cw if d == "c" else sw
            ev.append((d, w.protect(23, data, pad13=pad()), "app", data))
            truth[d] += data
        for _ in tick_at:
            ev.append(("s", sw.protect(22, hs(4, rb(rng, 40)), pad13=pad()), "ehs", None))
        if spec.alert_end:
            ev.append(("c", cw.protect(21, b"\x01\x00"), "alert", None))
        return Conn(spec, ev, keylog, truth, ref_keys, cr)

    # ---------------- SSL3 .. TLS1.2
    master = rb(rng, 48)
    keylog.append(f"CLIENT_RANDOM {cr.hex()} {master.hex()}")
    if p["aead"]:
        iv_len = 12 if p["mode"] == "CHACHA" else 4
    elif p["mode"] == "CBC" and v <= 0x0301:
        iv_len = p["block"]
    else:
        iv_len = 0
    kb = refkdf.key_block(v, p["prf"], master, cr, sr, 2 * p["mac_len"] + 2 * p["key_len"] + 2 * iv_len)
    k = refkdf.split_key_block(kb, p["mac_len"], p["key_len"], iv_len)
    cw = refrec.Writer(v, p, k["client_key"], k["client_iv"], k["client_mac"], rng, etm)
    sw = refrec.Writer(v, p, k["server_key"], k["server_iv"], k["server_mac"], rng, etm)
    fin_len = 36 if v == 0x0300 else 12

    def fin(w):
        return w.protect(22, hs(20, rb(rng, fin_len)), extra_pad_blocks=spec.extra_pad_blocks)

    if spec.resumed:
        ev.append(("s", refrec.plain_record(22, wire, hs(2, sh)), "hs", None))
        ev.append(("s", refrec.plain_record(20, wire, b"\x01"), "ccs", None))
        ev.append(("s", fin(sw), "ehs", None))
        ev.append(("c", refrec.plain_record(20, wire, b"\x01"), "ccs", None))
        ev.append(("c", fin(cw), "ehs", None))
    else:
        msgs = [hs(2, sh), hs(11, b"\x00" + rb(rng, spec.cert_len)), hs(12, rb(rng, 70)), hs(14, b"")]
        for r in pack_records(msgs, spec.group_server_flight, wire):
            ev.append(("s", r, "hs", None))
        ev.append(("c", refrec.plain_record(22, wire, hs(16, rb(rng, 66))), "hs", None))
        ev.append(("c", refrec.plain_record(20, wire, b"\x01"), "ccs", None))
        ev.append(("c", fin(cw), "ehs", None))
        if spec.tickets:
            ev.append(("s", refrec.plain_record(22, wire, hs(4, rb(rng, 50))), "hs", None))
        ev.append(("s", refrec.plain_record(20, wire, b"\x01"), "ccs", None))
        ev.append(("s", fin(sw), "ehs", None))
    for d, data in spec.app:
        w = cw if d == "c" else sw
        ev.append((d, w.protect(23, data, extra_pad_blocks=spec.extra_pad_blocks), "app", data))
        truth[d] += data
    if spec.alert_end:
        ev.append(("c", cw.protect(21, b"\x01\x00"), "alert", None))
    return Conn(spec, ev, keylog, truth, k, cr)
