"""The repository's own real captures (OpenSSL TLS sessions, real QUIC stacks) as workload for the metamorphic checks.

Nothing here knows what the captures contain: a check that uses them compares TLExport's exports with each other (other container, other key
delivery, other hash seed, re-cut TCP streams, damaged packets).  The files are read from TLE_REPO at run time and never copied.
"""
import glob
import os
import struct

from . import runner, tcpcap, tlssynth


def _root():
    return runner.REPO


def tls_captures():
    """-> [(name, path, key-log bytes, extra options)]"""
    keys = open(os.path.join(_root(), "test", "keylog.log"), "rb").read()
    return [(os.path.basename(f)[:-7], f, keys, []) for f in sorted(glob.glob(os.path.join(_root(), "test", "testfiles", "*.pcapng")))]


def quic_captures(big=False):
    d = os.path.join(_root(), "tlexport", "pcaps_und_keylogs", "quic_pcaps")
    keys = b"".join(open(f, "rb").read() for f in sorted(glob.glob(os.path.join(d, "*.log"))) if big or os.path.getsize(f) < 20000)
    out = []
    for f in sorted(glob.glob(os.path.join(d, "*.pcapng"))):
        if os.path.getsize(f) > 200000 and not big:
            continue
        out.append((os.path.basename(f)[:-7], f, keys, ["-g"]))
    return out


def load(path):
    """pcapng -> items [('pkt', ts_us, frame) | ('dsb', bytes)] in file order (own reader: first IDB's resolution/offset, EPB and DSB only)"""
    buf = open(path, "rb").read()
    e = "<" if buf[8:12] == b"\x4d\x3c\x2b\x1a" else ">"
    off = 0
    num, den, tsoff = 1, 10 ** 6, 0
    seen_idb = False
    items = []
    while off + 12 <= len(buf):
        bt, bl = struct.unpack_from(e + "II", buf, off)
        if bl < 12 or off + bl > len(buf):
            break
        body = buf[off + 8:off + bl - 4]
        if bt == 1 and not seen_idb:
            seen_idb = True
            o = 8
            while o + 4 <= len(body):
                code, ln = struct.unpack_from(e + "HH", body, o)
                if code == 0:
                    break
                if code == 9:
                    r = body[o + 4]
                    den = 2 ** (r & 0x7F) if r & 0x80 else 10 ** r
                if code == 14:
                    tsoff = struct.unpack_from(e + "q", body, o + 4)[0]
                o += 4 + ln + (-ln) % 4
        elif bt == 6:
            iface, th, tl, caplen, plen = struct.unpack_from(e + "IIIII", body)
            ticks = (th << 32) | tl
            items.append(("pkt", ticks * 10 ** 6 // den + tsoff * 10 ** 6, bytes(body[20:20 + caplen])))
        elif bt == 10:
            st, sl = struct.unpack_from(e + "II", body)
            if st == 0x544C534B:
                items.append(("dsb", bytes(body[8:8 + sl])))
        off += bl
    return items


def tcp_conversations(items):
    """real TLS capture -> {(cip, cport, sip, sport): events} ; events = the TLS records of both directions in the order in which they were complete
    on the wire (tlssynth.Ev with wire bytes only), reassembled from the in-order, duplicate-free TCP payloads.  Conversations whose payload is not
    a clean sequence of TLS records are left out."""
    convs = {}
    for kind, *rest in items:
        if kind != "pkt":
            continue
        fr = rest[1]
        if len(fr) < 54 or fr[12:14] != b"\x08\x00" or fr[23] != 6:
            continue
        ihl = (fr[14] & 0x0F) * 4
        tot = int.from_bytes(fr[16:18], "big")
        ip = fr[14:14 + tot]
        tcp = ip[ihl:]
        sp, dp, seq = struct.unpack_from("!HHI", tcp)
        doff = (tcp[12] >> 4) * 4
        flags = tcp[13]
        pl = tcp[doff:]
        src, dst = ip[12:16], ip[16:20]
        if flags & 0x02 and not flags & 0x10:
            convs[(src, sp, dst, dp)] = {"c": {}, "s": {}, "order": [], "macs": (fr[6:12], fr[0:6])}
        key = (src, sp, dst, dp) if (src, sp, dst, dp) in convs else (dst, dp, src, sp)
        if key not in convs or not pl:
            continue
        d = "c" if key == (src, sp, dst, dp) else "s"
        if seq not in convs[key][d]:
            convs[key][d][seq] = pl
            convs[key]["order"].append((d, seq))
    out = {}
    for key, c in convs.items():
        streams, nxt, bufs, events, ok = {}, {}, {"c": b"", "s": b""}, [], True
        for d in "cs":
            if c[d]:
                nxt[d] = min(c[d])
        for d, seq in c["order"]:
            if seq != nxt.get(d):
                ok = False          # out of order or lost: not used as a base capture
                break
            bufs[d] += c[d][seq]
            nxt[d] = (seq + len(c[d][seq])) & 0xFFFFFFFF
            while len(bufs[d]) >= 5:
                n = int.from_bytes(bufs[d][3:5], "big")
                if bufs[d][0] not in (20, 21, 22, 23) or bufs[d][1] != 3:
                    ok = False
                    break
                if len(bufs[d]) < 5 + n:
                    break
                events.append(tlssynth.Ev(d, bufs[d][:5 + n], "rec"))
                bufs[d] = bufs[d][5 + n:]
            if not ok:
                break
        if ok and events and not bufs["c"] and not bufs["s"]:
            cm, sm = c["macs"]
            ep = tcpcap.Endpoints(cm, sm, key[0], key[2], key[1], key[3], 1000, 5000)
            out[key] = (ep, events)
    return out


def client_randoms(items):
    """hex client randoms of the plaintext TLS ClientHellos in the capture (to pick a connection's own key-log lines)"""
    out = set()
    for it in items:
        if it[0] != "pkt":
            continue
        fr = it[2]
        if len(fr) < 60 or fr[12:14] != b"\x08\x00" or fr[23] != 6:
            continue
        ihl = (fr[14] & 0x0F) * 4
        tcp = fr[14 + ihl:14 + int.from_bytes(fr[16:18], "big")]
        pl = tcp[(tcp[12] >> 4) * 4:]
        if len(pl) >= 43 and pl[0] == 22 and pl[5] == 1:
            out.add(pl[11:43].hex())
    return out


def reframe_raw(frame, payload_fn):
    """Ethernet/IPv4|IPv6/TCP|UDP frame with its transport payload replaced by payload_fn(payload); lengths and checksums consistent.
    None if the frame is something else."""
    from . import netsynth as ns
    if frame[12:14] == b"\x08\x00":
        ihl = (frame[14] & 0x0F) * 4
        tot = int.from_bytes(frame[16:18], "big")
        proto, src, dst = frame[23], frame[26:30], frame[30:34]
        l4 = frame[14 + ihl:14 + tot]
    elif frame[12:14] == b"\x86\xdd":
        plen = int.from_bytes(frame[18:20], "big")
        proto, src, dst = frame[20], frame[22:38], frame[38:54]
        l4 = frame[54:54 + plen]
    else:
        return None
    if proto == 6 and len(l4) >= 20:
        doff = (l4[12] >> 4) * 4
        sp, dp, seq, ack = struct.unpack_from("!HHII", l4)
        seg = ns.tcp_segment(src, dst, sp, dp, seq, ack, l4[13], payload_fn(bytes(l4[doff:])), window=int.from_bytes(l4[14:16], "big"), options=bytes(l4[20:doff]))
    elif proto == 17 and len(l4) >= 8:
        sp, dp = struct.unpack_from("!HH", l4)
        seg = ns.udp_datagram(src, dst, sp, dp, payload_fn(bytes(l4[8:])))
    else:
        return None
    return frame[:12] + ns.eth_frame(b"", b"", ns.ip_packet(src, dst, proto, seg))
