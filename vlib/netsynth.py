"""Frame and capture-file writers (own implementation, struct only)."""
import struct


def csum16(data):
    if len(data) % 2:
        data += b"\x00"
    s = sum(struct.unpack("!%dH" % (len(data) // 2), data))
    while s >> 16:
        s = (s & 0xFFFF) + (s >> 16)
    return (~s) & 0xFFFF


def pseudo(src, dst, proto, ln):
    if len(src) == 4:
        return src + dst + struct.pack("!BBH", 0, proto, ln)
    return src + dst + struct.pack("!IHBB", ln, 0, 0, proto)


def tcp_segment(src, dst, sport, dport, seq, ack, flags, payload, window=65535, bad_csum=False, options=b""):
    off = (20 + len(options)) // 4
    hdr = struct.pack("!HHIIBBHHH", sport, dport, seq & 0xFFFFFFFF, ack & 0xFFFFFFFF, off << 4, flags, window, 0, 0) + options
    c = csum16(pseudo(src, dst, 6, len(hdr) + len(payload)) + hdr + payload)
    if bad_csum:
        c ^= 0x5555
    return hdr[:16] + struct.pack("!H", c) + hdr[18:] + payload


def udp_datagram(src, dst, sport, dport, payload, bad_csum=False):
    ln = 8 + len(payload)
    hdr = struct.pack("!HHHH", sport, dport, ln, 0)
    c = csum16(pseudo(src, dst, 17, ln) + hdr + payload)
    if c == 0:
        c = 0xFFFF
    if bad_csum:
        c ^= 0x5555
        if c == 0:
            c = 0x1234
    return hdr[:6] + struct.pack("!H", c) + payload


def ip_packet(src, dst, proto, l4, ident=0, ttl=64, opts=b"", ext=()):
    """opts: IPv4 options (a multiple of 4 bytes; the header length field grows with them); ext: IPv6 extension headers as (type, option bytes) in chain
    order (hop-by-hop 0, destination options 60, routing 43 ...), each padded with PadN to a multiple of 8 bytes; the fixed header's Next Header names the
    first of them and the last one names the transport protocol (RFC 8200 section 4)"""
    if len(src) == 4:
        assert len(opts) % 4 == 0 and len(opts) <= 40
        hdr = struct.pack("!BBHHHBBH4s4s", 0x40 | (5 + len(opts) // 4), 0, 20 + len(opts) + len(l4), ident & 0xFFFF, 0x4000, ttl, proto, 0, src, dst) + opts
        c = csum16(hdr)
        return hdr[:10] + struct.pack("!H", c) + hdr[12:] + l4
    chain = b""
    types = [t for t, _ in ext] + [proto]
    for i, (_t, body) in enumerate(ext):
        pad = (-(2 + len(body))) % 8
        if pad == 1:
            body = body + b"\x00"                                    # Pad1
        elif pad:
            body = body + bytes([1, pad - 2]) + bytes(pad - 2)       # PadN
        chain += bytes([types[i + 1], (2 + len(body)) // 8 - 1]) + body
    return struct.pack("!IHBB16s16s", 0x60000000, len(chain) + len(l4), types[0], ttl, src, dst) + chain + l4


def eth_frame(smac, dmac, ip, vlan=()):
    """vlan: 802.1Q / 802.1ad tags as (TPID, TCI) from the outermost inwards"""
    et = 0x0800 if ip[0] >> 4 == 4 else 0x86DD
    tags = b"".join(struct.pack("!HH", tpid, tci) for tpid, tci in vlan)
    return dmac + smac + tags + struct.pack("!H", et) + ip


class Encap:
    """how an endpoint pair's packets are wrapped below the transport layer: VLAN tags, IPv4 options, IPv6 extension headers (all legitimate, all
    irrelevant to what is exported); the default is the plain 14 + 20/40 byte layout"""
    __slots__ = ("vlan", "opts", "ext")

    def __init__(self, vlan=(), opts=b"", ext=()):
        self.vlan, self.opts, self.ext = tuple(vlan), opts, tuple(ext)

    def __bool__(self):
        return bool(self.vlan or self.opts or self.ext)

    def describe(self):
        return "+".join((["vlan%d" % len(self.vlan)] if self.vlan else []) + (["ip4opts%d" % len(self.opts)] if self.opts else [])
                        + (["ip6ext" + "-".join(str(t) for t, _ in self.ext)] if self.ext else [])) or "plain"


PLAIN = Encap()


def random_encap(rng, v6):
    vlan = ()
    r = rng.random()
    if r < 0.35:
        vlan = ((0x8100, rng.randrange(0, 1 << 16)),)
    elif r < 0.5:
        vlan = ((0x88A8, rng.randrange(0, 1 << 16)), (0x8100, rng.randrange(0, 1 << 16)))       # QinQ
    opts, ext = b"", ()
    if rng.random() < 0.7:
        if v6:
            hbh = (0, rng.choice([b"", bytes([0x05, 2, 0, 0]), bytes([0x1E, 4]) + rng.randbytes(4)]))              # nothing / router alert / an experimental skip-over option
            dst = (60, rng.choice([b"", bytes([0x1E, 6]) + rng.randbytes(6), bytes([0x1E, 12]) + rng.randbytes(12)]))
            ext = rng.choice([(hbh,), (dst,), (hbh, dst), (dst, dst)])
        else:
            opts = rng.choice([b"\x01\x01\x01\x00", b"\x94\x04\x00\x00", b"\x01\x01\x01\x01\x94\x04\x00\x00",                     # NOPs+EOL, router alert
                               b"\x44\x0c\x05\x00" + bytes(8), b"\x07\x27\x04" + bytes(36) + b"\x00"])                               # timestamp, record route filling all 40 bytes
    return Encap(vlan, opts, ext)


def locate(fr):
    """(l3 offset, l4 offset, end of the IP datagram, transport protocol, is_v6) of a frame built by eth_frame/ip_packet with any Encap"""
    o = 12
    while fr[o:o + 2] in (b"\x81\x00", b"\x88\xa8"):
        o += 4
    et = fr[o:o + 2]
    o += 2
    if et == b"\x08\x00":
        ihl = (fr[o] & 0x0F) * 4
        return o, o + ihl, o + int.from_bytes(fr[o + 2:o + 4], "big"), fr[o + 9], False
    assert et == b"\x86\xdd", et
    end = o + 40 + int.from_bytes(fr[o + 4:o + 6], "big")
    nxt, q = fr[o + 6], o + 40
    while nxt in (0, 43, 60):
        nxt, q = fr[q], q + 8 * (fr[q + 1] + 1)
    return o, q, end, nxt, True


# ------------------------------------------------------------------ capture files
def _opt(code, data, e):
    pad = (-len(data)) % 4
    return struct.pack(e + "HH", code, len(data)) + data + b"\x00" * pad


def _block(btype, body, e):
    pad = (-len(body)) % 4
    n = 12 + len(body) + pad
    return struct.pack(e + "II", btype, n) + body + b"\x00" * pad + struct.pack(e + "I", n)


def pcapng(items, le=True, tsresol=None, tsoffset=None, snaplen=262144, junk_blocks=False, offset_first=False, extra_opts=False, epb_opts=False, pre_idb=(), obsolete_pb=0.0, seclen=False):
    """items: list of ('pkt', ts_us:int, frame) | ('dsb', bytes) | ('raw', btype, body)
    offset_first: write if_tsoffset before if_tsresol in the IDB (pcapng prescribes no option order);
    obsolete_pb: fraction of packets written as (obsolete) Packet Blocks, type 2, instead of Enhanced Packet Blocks;
    extra_opts: unrelated options in the SHB (hardware, os, userappl) and IDB (if_name, if_description, if_os, if_fcslen, a custom one);
    epb_opts: options on the packet blocks (epb_flags, a comment)"""
    e = "<" if le else ">"
    shb_opts = b""
    if extra_opts:
        shb_opts = (_opt(2, b"Intel(R) Core(TM) i7-8550U CPU @ 1.80GHz (with SSE4.2)", e) + _opt(3, b"Linux 6.1.0-13-amd64", e) +
                    _opt(4, b"Dumpcap (Wireshark) 4.0.11 (Git v4.0.11 packaged as 4.0.11-1~deb12u1)", e) + _opt(0, b"", e))      # as long as the ones real tools write
    out = [_block(0x0A0D0D0A, struct.pack(e + "IHHq", 0x1A2B3C4D, 1, 0, -1) + shb_opts, e)]
    o_res = _opt(9, bytes([tsresol]), e) if tsresol is not None else b""
    o_off = _opt(14, struct.pack(e + "q", tsoffset), e) if tsoffset is not None else b""
    opts = b""
    if extra_opts:
        opts += _opt(2, b"eth0", e) + _opt(3, b"uplink", e)
    opts += (o_off + o_res) if offset_first else (o_res + o_off)
    if extra_opts:
        opts += _opt(12, b"Linux", e) + _opt(13, b"\x04", e) + _opt(1, b"interface comment", e)
    if opts:
        opts += _opt(0, b"", e)
    if junk_blocks:
        out.append(_block(0x00000BAD, struct.pack(e + "I", 32473) + b"custom!!", e))
    for it in pre_idb:      # blocks between the section header and the first interface description (legal for DSB, NRB, custom blocks)
        if it[0] == "dsb":
            out.append(_block(10, struct.pack(e + "II", 0x544C534B, len(it[1])) + it[1], e))
        elif it[0] == "raw":
            out.append(_block(it[1], it[2], e))
    out.append(_block(1, struct.pack(e + "HHI", 1, 0, snaplen) + opts, e))
    if tsresol is None:
        num, den = 1, 10 ** 6
    elif tsresol & 0x80:
        num, den = 1, 2 ** (tsresol & 0x7F)
    else:
        num, den = 1, 10 ** tsresol
    for n, it in enumerate(items):
        if it[0] == "pkt":
            _, ts_us, frame = it
            if tsoffset:
                ts_us -= tsoffset * 10 ** 6
            ticks, rem = divmod(ts_us * den, 10 ** 6)      # ts_us may be a Fraction (sub-microsecond capture clocks)
            assert rem == 0, "timestamp not representable at this resolution"
            ticks = int(ticks)
            assert ticks >= 0, "timestamp before the interface offset"
            if obsolete_pb and (n * 2654435761 % 1000) / 1000.0 < obsolete_pb:
                out.append(_block(2, struct.pack(e + "HHIIII", 0, 0, ticks >> 32, ticks & 0xFFFFFFFF, len(frame), len(frame)) + frame, e))
                continue
            body = struct.pack(e + "IIIII", 0, ticks >> 32, ticks & 0xFFFFFFFF, len(frame), len(frame)) + frame
            if epb_opts:
                body += b"\x00" * ((-len(body)) % 4)
                body += _opt(2, struct.pack(e + "I", 1 + (n & 1)), e) + (_opt(1, b"pkt %d" % n, e) if n % 3 == 0 else b"") + _opt(0, b"", e)
            out.append(_block(6, body, e))
        elif it[0] == "dsb":
            out.append(_block(10, struct.pack(e + "II", 0x544C534B, len(it[1])) + it[1], e))
        elif it[0] == "raw":
            out.append(_block(it[1], it[2], e))
    if seclen:      # the section header states the real length of the section (octets behind the SHB) instead of -1 "unspecified"
        n = sum(len(b) for b in out[1:])
        out[0] = _block(0x0A0D0D0A, struct.pack(e + "IHHq", 0x1A2B3C4D, 1, 0, n) + shb_opts, e)
    return b"".join(out)


def _ticks(ts_us, tsresol, tsoffset):
    den = 10 ** 6 if tsresol is None else (2 ** (tsresol & 0x7F) if tsresol & 0x80 else 10 ** tsresol)
    if tsoffset:
        ts_us -= tsoffset * 10 ** 6
    ticks, rem = divmod(ts_us * den, 10 ** 6)
    assert rem == 0, "timestamp not representable at this resolution"
    assert ticks >= 0, "timestamp before the interface offset"
    return int(ticks)


def pcapng_multi(items, ifaces, assign, le=True, sections=1, late_idb=False, obsolete_pb=False, linktypes=None):
    """The same packet list as a capture of several interfaces (what dumpcap -i a -i b or mergecap write): ifaces = [(if_tsresol or None, if_tsoffset or None), ...],
    assign(n) -> interface index of the n-th packet.  Every packet's timestamp is written in the units of ITS interface (pcapng 4.2: resolution and offset are
    per-interface options).  sections > 1: the list is split into that many sections of one file, each with its own section header and interface descriptions (the
    interface list rotated by one from section to section, ids start at 0 again); linktypes: link type per interface (default Ethernet; an interface of another
    type must not be assigned packets here - every frame of the list is an Ethernet frame - it stands for an idle tun/any/loopback device captured alongside); late_idb: an interface description is written just in front of the first packet
    of the section that refers to it instead of at the top of the section (allowed: 'before any block that refers to it')."""
    e = "<" if le else ">"
    out = []
    pkt_idx = [i for i, it in enumerate(items) if it[0] == "pkt"]
    bounds = [0] + [pkt_idx[len(pkt_idx) * k // sections] if pkt_idx else 0 for k in range(1, sections)] + [len(items)]
    n = 0
    for sec in range(sections):
        order = [(k + sec) % len(ifaces) for k in range(len(ifaces))]           # position in this section's interface list -> index into ifaces
        out.append(_block(0x0A0D0D0A, struct.pack(e + "IHHq", 0x1A2B3C4D, 1, 0, -1), e))

        def idb(k):
            res, off = ifaces[k]
            opts = (_opt(9, bytes([res]), e) if res is not None else b"") + (_opt(14, struct.pack(e + "q", off), e) if off is not None else b"")
            return _block(1, struct.pack(e + "HHI", linktypes[k] if linktypes else 1, 0, 262144) + _opt(2, b"if%d" % k, e) + opts + _opt(0, b"", e), e)
        described = 0
        if not late_idb:
            out += [idb(k) for k in order]
            described = len(order)
        for it in items[bounds[sec]:bounds[sec + 1]]:
            if it[0] == "pkt":
                _, ts_us, frame = it
                k = assign(n) % len(ifaces)
                pos = order.index(k)
                while described <= pos:                                         # ids are positions in order of description: describe everything up to the one needed
                    out.append(idb(order[described]))
                    described += 1
                t = _ticks(ts_us, *ifaces[k])
                if obsolete_pb and n % 3 == 1:
                    out.append(_block(2, struct.pack(e + "HHIIII", pos, 0, t >> 32, t & 0xFFFFFFFF, len(frame), len(frame)) + frame, e))
                else:
                    out.append(_block(6, struct.pack(e + "IIIII", pos, t >> 32, t & 0xFFFFFFFF, len(frame), len(frame)) + frame, e))
                n += 1
            elif it[0] == "dsb":
                out.append(_block(10, struct.pack(e + "II", 0x544C534B, len(it[1])) + it[1], e))
            elif it[0] == "raw":
                out.append(_block(it[1], it[2], e))
        if described == 0:
            out.append(idb(order[0]))                                           # a section without packets still describes an interface
    return b"".join(out)


def pcap_legacy(items, le=True, nano=False):
    e = "<" if le else ">"
    magic = 0xA1B23C4D if nano else 0xA1B2C3D4
    out = [struct.pack(e + "IHHiIII", magic, 2, 4, 0, 0, 262144, 1)]
    for it in items:
        if it[0] != "pkt":
            continue
        _, ts_us, frame = it
        sec, us = divmod(ts_us, 10 ** 6)
        out.append(struct.pack(e + "IIII", sec, us * 1000 if nano else us, len(frame), len(frame)) + frame)
    return b"".join(out)
