"""Frame and capture-file writers (own implementation, struct only)."""
import struct


def csum16(data):
    if len(data) % 2:
        data += b"\x00"
    s = sum(struct.unpack("!%dH" % (len(data) // 2), data))
    while s >> 16:
        s = (s & 0xFFFF) + (s >> 16)
    return (~s) & 0xFFFF


def pseudo(src, dst, proto, ln):
    if len(src) == 4:
        return src + dst + struct.pack("!BBH", 0, proto, ln)
    return src + dst + struct.pack("!IHBB", ln, 0, 0, proto)


def tcp_segment(src, dst, sport, dport, seq, ack, flags, payload, window=65535, bad_csum=False, options=b""):
    off = (20 + len(options)) // 4
    hdr = struct.pack("!HHIIBBHHH", sport, dport, seq & 0xFFFFFFFF, ack & 0xFFFFFFFF, off << 4, flags, window, 0, 0) + options
    c = csum16(pseudo(src, dst, 6, len(hdr) + len(payload)) + hdr + payload)
    if bad_csum:
        c ^= 0x5555
    return hdr[:16] + struct.pack("!H", c) + hdr[18:] + payload


def udp_datagram(src, dst, sport, dport, payload, bad_csum=False):
    ln = 8 + len(payload)
    hdr = struct.pack("!HHHH", sport, dport, ln, 0)
    c = csum16(pseudo(src, dst, 17, ln) + hdr + payload)
    if c == 0:
        c = 0xFFFF
    if bad_csum:
        c ^= 0x5555
        if c == 0:
            c = 0x1234
    return hdr[:6] + struct.pack("!H", c) + payload


def ip_packet(src, dst, proto, l4, ident=0, ttl=64):
    if len(src) == 4:
        hdr = struct.pack("!BBHHHBBH4s4s", 0x45, 0, 20 + len(l4), ident & 0xFFFF, 0x4000, ttl, proto, 0, src, dst)
        c = csum16(hdr)
        return hdr[:10] + struct.pack("!H", c) + hdr[12:] + l4
    return struct.pack("!IHBB16s16s", 0x60000000, len(l4), proto, ttl, src, dst) + l4


def eth_frame(smac, dmac, ip):
    et = 0x0800 if ip[0] >> 4 == 4 else 0x86DD
    return dmac + smac + struct.pack("!H", et) + ip


# ------------------------------------------------------------------ capture files
def _opt(code, data, e):
    pad = (-len(data)) % 4
    return struct.pack(e + "HH", code, len(data)) + data + b"\x00" * pad


def _block(btype, body, e):
    pad = (-len(body)) % 4
    n = 12 + len(body) + pad
    return struct.pack(e + "II", btype, n) + body + b"\x00" * pad + struct.pack(e + "I", n)


def pcapng(items, le=True, tsresol=None, tsoffset=None, snaplen=262144, junk_blocks=False, offset_first=False, extra_opts=False, epb_opts=False, pre_idb=(), obsolete_pb=0.0, seclen=False):
    """items: list of ('pkt', ts_us:int, frame) | ('dsb', bytes) | ('raw', btype, body)
    offset_first: write if_tsoffset before if_tsresol in the IDB (pcapng prescribes no option order);
    obsolete_pb: fraction of packets written as (obsolete) Packet Blocks, type 2, instead of Enhanced Packet Blocks;
    extra_opts: unrelated options in the SHB (hardware, os, userappl) and IDB (if_name, if_description, if_os, if_fcslen, a custom one);
    epb_opts: options on the packet blocks (epb_flags, a comment)"""
    e = "<" if le else ">"
    shb_opts = b""
    if extra_opts:
        shb_opts = (_opt(2, b"Intel(R) Core(TM) i7-8550U CPU @ 1.80GHz (with SSE4.2)", e) + _opt(3, b"Linux 6.1.0-13-amd64", e) +
                    _opt(4, b"Dumpcap (Wireshark) 4.0.11 (Git v4.0.11 packaged as 4.0.11-1~deb12u1)", e) + _opt(0, b"", e))      # as long as the ones real tools write
    out = [_block(0x0A0D0D0A, struct.pack(e + "IHHq", 0x1A2B3C4D, 1, 0, -1) + shb_opts, e)]
    o_res = _opt(9, bytes([tsresol]), e) if tsresol is not None else b""
    o_off = _opt(14, struct.pack(e + "q", tsoffset), e) if tsoffset is not None else b""
    opts = b""
    if extra_opts:
        opts += _opt(2, b"eth0", e) + _opt(3, b"uplink", e)
    opts += (o_off + o_res) if offset_first else (o_res + o_off)
    if extra_opts:
        opts += _opt(12, b"Linux", e) + _opt(13, b"\x04", e) + _opt(1, b"interface comment", e)
    if opts:
        opts += _opt(0, b"", e)
    if junk_blocks:
        out.append(_block(0x00000BAD, struct.pack(e + "I", 32473) + b"custom!!", e))
    for it in pre_idb:      # blocks between the section header and the first interface description (legal for DSB, NRB, custom blocks)
        if it[0] == "dsb":
            out.append(_block(10, struct.pack(e + "II", 0x544C534B, len(it[1])) + it[1], e))
        elif it[0] == "raw":
            out.append(_block(it[1], it[2], e))
    out.append(_block(1, struct.pack(e + "HHI", 1, 0, snaplen) + opts, e))
    if tsresol is None:
        num, den = 1, 10 ** 6
    elif tsresol & 0x80:
        num, den = 1, 2 ** (tsresol & 0x7F)
    else:
        num, den = 1, 10 ** tsresol
    for n, it in enumerate(items):
        if it[0] == "pkt":
            _, ts_us, frame = it
            if tsoffset:
                ts_us -= tsoffset * 10 ** 6
            ticks, rem = divmod(ts_us * den, 10 ** 6)      # ts_us may be a Fraction (sub-microsecond capture clocks)
            assert rem == 0, "timestamp not representable at this resolution"
            ticks = int(ticks)
            assert ticks >= 0, "timestamp before the interface offset"
            if obsolete_pb and (n * 2654435761 % 1000) / 1000.0 < obsolete_pb:
                out.append(_block(2, struct.pack(e + "HHIIII", 0, 0, ticks >> 32, ticks & 0xFFFFFFFF, len(frame), len(frame)) + frame, e))
                continue
            body = struct.pack(e + "IIIII", 0, ticks >> 32, ticks & 0xFFFFFFFF, len(frame), len(frame)) + frame
            if epb_opts:
                body += b"\x00" * ((-len(body)) % 4)
                body += _opt(2, struct.pack(e + "I", 1 + (n & 1)), e) + (_opt(1, b"pkt %d" % n, e) if n % 3 == 0 else b"") + _opt(0, b"", e)
            out.append(_block(6, body, e))
        elif it[0] == "dsb":
            out.append(_block(10, struct.pack(e + "II", 0x544C534B, len(it[1])) + it[1], e))
        elif it[0] == "raw":
            out.append(_block(it[1], it[2], e))
    if seclen:      # the section header states the real length of the section (octets behind the SHB) instead of -1 "unspecified"
        n = sum(len(b) for b in out[1:])
        out[0] = _block(0x0A0D0D0A, struct.pack(e + "IHHq", 0x1A2B3C4D, 1, 0, n) + shb_opts, e)
    return b"".join(out)


def pcap_legacy(items, le=True, nano=False):
    e = "<" if le else ">"
    magic = 0xA1B23C4D if nano else 0xA1B2C3D4
    out = [struct.pack(e + "IHHiIII", magic, 2, 4, 0, 0, 262144, 1)]
    for it in items:
        if it[0] != "pkt":
            continue
        _, ts_us, frame = it
        sec, us = divmod(ts_us, 10 ** 6)
        out.append(struct.pack(e + "IIII", sec, us * 1000 if nano else us, len(frame), len(frame)) + frame)
    return b"".join(out)
