"""Development aid (not a check): which lines of tlexport/ do the workloads reach?  Enabled by VERIF_COVER=<dir>.

sys.monitoring LINE events with DISABLE after the first hit, so the cost is one callback per line of code per process tree.  A forked child
inherits the set and reports only what it added; workers write their set to <dir>/<pid>.txt at the end.  tools/reach_report.py merges.
"""
import os
import sys

DIR = os.environ.get("VERIF_COVER")
SEEN = set()
TOOL = 4
_root = None


def start():
    global _root
    if not DIR or _root:
        return
    _root = os.path.join(os.environ.get("TLE_REPO", "/repo"), "tlexport") + "/"
    m = sys.monitoring
    try:
        m.use_tool_id(TOOL, "tleverif-reach")
    except ValueError:
        return

    def line(code, ln):
        fn = code.co_filename
        if fn.startswith(_root):
            SEEN.add((fn[len(_root):], ln))
        return m.DISABLE

    m.register_callback(TOOL, m.events.LINE, line)
    m.set_events(TOOL, m.events.LINE)


def child_base():
    return set(SEEN) if DIR else None


def child_dump(base, path):
    if base is None:
        return
    with open(path, "w") as f:
        for fn, ln in SEEN - base:
            f.write(f"{fn}:{ln}\n")


def absorb(path):
    if not DIR:
        return
    try:
        for l in open(path):
            fn, ln = l.rsplit(":", 1)
            SEEN.add((fn, int(ln)))
    except OSError:
        pass


def flush():
    if not DIR:
        return
    os.makedirs(DIR, exist_ok=True)
    with open(os.path.join(DIR, f"{os.getpid()}.txt"), "w") as f:
        for fn, ln in sorted(SEEN):
            f.write(f"{fn}:{ln}\n")
