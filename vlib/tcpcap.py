"""Turn a connection's record events into TCP segments (causal, arbitrarily segmentable, with retransmissions/reordering)."""
import random
import struct
from dataclasses import dataclass

from . import netsynth as ns


@dataclass
class Endpoints:
    cmac: bytes
    smac: bytes
    cip: bytes
    sip: bytes
    cport: int
    sport: int
    cisn: int = 1000
    sisn: int = 5000
    fin: bool = False         # each direction's last data segment also carries FIN (response / close_notify and FIN in one segment, as real stacks send them)
    encap: object = ns.PLAIN  # VLAN tags / IPv4 options / IPv6 extension headers around every packet of the pair (netsynth.Encap)
    tcpopts: bool = False     # segments carry TCP options as real stacks send them (timestamps on every segment, MSS/SACK-permitted/window scale on SYN, SACK blocks on some ACKs)

    @property
    def v6(self):
        return len(self.cip) == 16

    def describe(self):
        import ipaddress
        return f"{ipaddress.ip_address(self.cip)}:{self.cport}->{ipaddress.ip_address(self.sip)}:{self.sport}" + (f" [{self.encap.describe()}]" if self.encap else "")


def default_ep(i=0, v6=False, sport=443):
    if v6:
        cip = bytes.fromhex("20010db8000000000000000000000000")[:-1] + bytes([10 + i])
        sip = bytes.fromhex("20010db8000000000000000000010000")[:-1] + bytes([1])
    else:
        cip, sip = bytes([10, 0, 0, 10 + i]), bytes([192, 0, 2, 1])
    return Endpoints(bytes([2, 0, 0, 0, 0, 10 + i]), bytes([2, 0, 0, 0, 1, 1]), cip, sip, 40000 + i, sport)


_ODD_MACS = [bytes(6), b"\xff" * 6, b"ABCDEF", b"\x00\x00\x00\x00\x00\x01", b"\x0a\x0d\x20\x22\x27\x5c", bytes([2, 0, 0, 0, 0, 0])]
_ODD_V4 = [bytes(4), b"\xff" * 4, bytes([127, 0, 0, 1]), bytes([10, 13, 10, 32]), bytes([1, 0, 0, 0]), bytes([0, 0, 0, 1])]


LOOPBACK_PORTS = (61000, 61400)


def map_target(rng):
    """a random target port for -m pairs, outside the client-port band of loopback endpoints"""
    while True:
        p = rng.randrange(1, 65536)
        if not LOOPBACK_PORTS[0] <= p < LOOPBACK_PORTS[1]:
            return p


def random_ep(rng, v6=None, sport=443, odd=0.3):
    """random MAC/IP/port values incl. all-zero, broadcast, ASCII-looking and zero-embedded addresses"""
    v6 = rng.random() < 0.4 if v6 is None else v6

    def mac():
        return rng.choice(_ODD_MACS) if rng.random() < odd else rng.randbytes(6)

    def ip():
        if v6:
            r = rng.random()
            if r < odd / 2:
                return bytes(15) + bytes([rng.randrange(1, 255)])
            if r < odd:
                return b"\x20\x01\x0d\xb8" + bytes(8) + rng.randbytes(4)
            return rng.randbytes(16)
        return rng.choice(_ODD_V4) if rng.random() < odd else rng.randbytes(4)
    cm, sm = mac(), mac()
    ci, si = ip(), ip()
    while si == ci:
        si = ip()
    loopback = bool(odd) and rng.random() < 0.08
    if loopback:
        si, sm = ci, cm                                         # both endpoints on one host (loopback capture): only the ports tell the directions apart
    cport = rng.choice([1, 1024, 65535, rng.randrange(1, 65536), rng.randrange(32768, 61000)])
    while cport == sport or cport in (443, 44330) or LOOPBACK_PORTS[0] <= cport < LOOPBACK_PORTS[1]:
        cport = rng.randrange(1024, 61000)
    if loopback:
        # a -m mapping of the server port onto the client's port would make the two exported endpoints identical (the user's doing, not TLExport's):
        # loopback clients use a port band that no generated mapping targets (map_target) and that is never a server port (8080 included)
        cport = rng.randrange(*LOOPBACK_PORTS)
    cisn = rng.choice([0, 1, (1 << 32) - 1, (1 << 31), rng.randrange(0, 1 << 32), rng.randrange(0, 1 << 32)])
    r = rng.random()
    if r < 0.6:
        sisn = rng.randrange(0, 1 << 32)
    elif r < 0.7:
        sisn = cisn                                             # equal initial sequence numbers
    else:                                                       # half the sequence space apart, give or take a stream length
        sisn = (cisn + (1 << 31) + rng.choice([-1, 1]) * rng.choice([0, 1, 2, 100, 700, 3000, 20000, rng.randrange(0, 70000)])) % (1 << 32)
    er = random.Random((cport << 33) ^ cisn ^ 0x5EED)           # own stream: drawing the encapsulation does not shift any other draw of the case
    encap = ns.random_encap(er, v6) if odd and er.random() < 0.22 else ns.PLAIN
    return Endpoints(cm, sm, ci, si, cport, sport, cisn, sisn, encap=encap, tcpopts=bool(odd) and (cport ^ cisn) % 3 != 0, fin=bool(odd) and (cport * 7 + cisn) % 4 == 0)


@dataclass
class Seg:
    dir: str
    seq: int
    ack: int
    flags: int
    payload: bytes
    woff: int = -1        # offset of the first payload byte in the direction's wire stream (-1: no payload)
    burst: int = -1
    dup: bool = False
    ts: int = 0


def bursts_of(events):
    """consecutive same-direction records form one burst; a burst ends when the direction changes, so every reply follows the
    complete record it answers (causal order)"""
    out = []
    for e in events:
        if out and out[-1][0] == e.dir:
            out[-1][1] += e.wire
        else:
            out.append([e.dir, bytearray(e.wire)])
    return out


def segments(events, ep: Endpoints, cutter, with_handshake=True, max_burst=None):
    """-> [Seg] in-order, no duplicates. cutter(dir, nbytes, burst_index) -> list of segment sizes summing to nbytes."""
    pk = []
    seq = {"c": ep.cisn, "s": ep.sisn}
    if with_handshake:
        pk.append(Seg("c", seq["c"] & 0xFFFFFFFF, 0, 0x02, b""))
        seq["c"] += 1
        pk.append(Seg("s", seq["s"] & 0xFFFFFFFF, seq["c"] & 0xFFFFFFFF, 0x12, b""))
        seq["s"] += 1
        pk.append(Seg("c", seq["c"] & 0xFFFFFFFF, seq["s"] & 0xFFFFFFFF, 0x10, b""))
    else:
        seq["c"] += 1
        seq["s"] += 1
    woff = {"c": 0, "s": 0}
    for bi, (d, data) in enumerate(bursts_of(events)):
        o = "s" if d == "c" else "c"
        off = 0
        sizes = [x for n in cutter(d, len(data), bi) for x in ([n] if n <= 60000 else [60000] * (n // 60000) + ([n % 60000] if n % 60000 else []))]
        assert sum(sizes) == len(data) and all(s > 0 for s in sizes), (sizes, len(data))
        for n in sizes:
            chunk = bytes(data[off:off + n])
            pk.append(Seg(d, seq[d] & 0xFFFFFFFF, seq[o] & 0xFFFFFFFF, 0x18, chunk, woff[d], bi))
            off += n
            woff[d] += n
            seq[d] += n
    if ep.fin:
        for d in "cs":
            last = [i for i, s_ in enumerate(pk) if s_.dir == d and s_.payload]
            if last:
                s_ = pk[last[-1]]
                pk[last[-1]] = Seg(s_.dir, s_.seq, s_.ack, s_.flags | 0x01, s_.payload, s_.woff, s_.burst)
    return pk


def frame(ep: Endpoints, s: Seg, bad_csum=False):
    if s.dir == "c":
        sm, dm, si, di, sp, dp = ep.cmac, ep.smac, ep.cip, ep.sip, ep.cport, ep.sport
    else:
        sm, dm, si, di, sp, dp = ep.smac, ep.cmac, ep.sip, ep.cip, ep.sport, ep.cport
    opts = b""
    if ep.tcpopts:
        tsv = struct.pack("!II", (s.seq * 2654435761 + 7) & 0xFFFFFFFF, (s.ack * 40503 + 1) & 0xFFFFFFFF)
        if s.flags & 0x02:
            opts = b"\x02\x04\x05\xb4\x04\x02\x08\x0a" + tsv + b"\x01\x03\x03\x07"             # MSS, SACK permitted, timestamps, NOP, window scale
        elif not s.payload and (s.seq + s.ack) % 7 == 0:
            opts = b"\x01\x01\x08\x0a" + tsv + b"\x01\x01\x05\x0a" + struct.pack("!II", (s.ack + 100) & 0xFFFFFFFF, (s.ack + 200) & 0xFFFFFFFF)      # + one SACK block
        else:
            opts = b"\x01\x01\x08\x0a" + tsv
    seg = ns.tcp_segment(si, di, sp, dp, s.seq, s.ack, s.flags, s.payload, bad_csum=bad_csum, options=opts)
    return ns.eth_frame(sm, dm, ns.ip_packet(si, di, 6, seg, opts=ep.encap.opts, ext=ep.encap.ext), vlan=ep.encap.vlan)


# ------------------------------------------------------------------ cutters
def cut_whole(d, n, bi):
    return [n]


def cut_mss(mss):
    def f(d, n, bi):
        out = []
        while n > 0:
            out.append(min(mss, n))
            n -= out[-1]
        return out
    return f


def cut_random(rng, maxseg=1460, minseg=1, budget=900):
    left = [budget]

    def f(d, n, bi):
        out = []
        while n > 0:
            hi = maxseg if left[0] > 0 else max(maxseg, 1460)
            k = min(n, rng.randrange(minseg, hi + 1))
            out.append(k)
            left[0] -= 1
            n -= k
        return out
    return f


def cut_bytes(k=1, budget=900):
    """k-byte segments while a budget of segments lasts, MSS afterwards (TLExport's duplicate suppression and re-scan of buffered
    segments are quadratic in the number of segments of a flow: a cost of the workload, not a property)"""
    left = [budget]

    def f(d, n, bi):
        m = min(n // k, left[0])
        left[0] -= m
        out = [k] * m
        rest = n - k * m
        if rest:
            out += cut_mss(1460)(d, rest, bi) if rest > 3 * k else [rest]
        return out
    return f


def cut_tail1(events, head=0, only_app=False):
    """every record ends in a segment of its own that carries just its last byte (a burst of k*MSS+1 bytes, a window that opened by one byte), and,
    with head > 0, starts with a segment of `head` bytes: the 1..4-byte segments real stacks do produce at record edges"""
    sizes = {}
    bi = -1
    last = None
    for e in events:
        if e.dir != last:
            bi += 1
            last = e.dir
            sizes[bi] = []
        n = len(e.wire)
        if only_app and e.kind != "app":            # handshake delivered in whole records: the connection is established before the short segments begin
            sizes[bi].append(n)
            continue
        parts = [min(head, n - 1)] if head and n > 1 else []
        body = n - sum(parts) - 1
        if body > 0:
            parts.append(body)
        parts.append(1)
        sizes[bi] += [x for x in parts if x > 0]

    def f(d, n, b):
        assert sum(sizes[b]) == n
        return list(sizes[b])
    return f


def cut_at(points_by_burst):
    """explicit cut points per burst index: {bi: [offsets]}"""
    def f(d, n, bi):
        pts = sorted(p for p in points_by_burst.get(bi, ()) if 0 < p < n)
        edges = [0] + pts + [n]
        return [edges[i + 1] - edges[i] for i in range(len(edges) - 1) if edges[i + 1] > edges[i]]
    return f


def cut_records(events, per=1):
    """record-aligned segmentation: every segment ends on a record boundary (the adversarial class for reassembly without an
    expected-sequence tracker); `per` records per segment"""
    sizes = {}
    bi = -1
    last = None
    cnt = 0
    for e in events:
        if e.dir != last:
            bi += 1
            last = e.dir
            sizes[bi] = []
            cnt = 0
        if cnt % per == 0:
            sizes[bi].append(len(e.wire))
        else:
            sizes[bi][-1] += len(e.wire)
        cnt += 1

    def f(d, n, b):
        assert sum(sizes[b]) == n
        return list(sizes[b])
    return f


def make_cutter(rng, kind, events=None):
    if kind == "whole":
        return cut_whole
    if kind == "mss":
        return cut_mss(rng.choice([536, 1220, 1460, 8960]))
    if kind == "byte1":
        return cut_bytes(1)
    if kind == "byte2":
        return cut_bytes(rng.choice([2, 3, 5]))
    if kind == "random":
        return cut_random(rng, rng.choice([10, 100, 1460, 4000]))
    if kind == "records":
        return cut_records(events, rng.choice([1, 1, 2]))
    if kind == "tail1":
        return cut_tail1(events, rng.choice([0, 0, 1, 3, 4, 5]), only_app=rng.random() < 0.6)
    raise ValueError(kind)


CUT_KINDS = ["whole", "mss", "byte1", "byte2", "random", "records", "tail1"]


# ------------------------------------------------------------------ delivery perturbations (same byte streams)
def add_duplicates(segs, rng, n):
    """insert n exact duplicates of payload-carrying segments somewhere after their original"""
    out = list(segs)
    for _ in range(n):
        idx = [i for i, s in enumerate(out) if s.payload and not s.dup]
        if not idx:
            break
        i = rng.choice(idx)
        s = out[i]
        j = rng.randrange(i + 1, min(len(out), i + 6) + 1) if rng.random() < 0.6 else rng.randrange(i + 1, len(out) + 1)
        out.insert(j, Seg(s.dir, s.seq, s.ack, s.flags, s.payload, s.woff, s.burst, True))
    return out


def displace(segs, rng, n, maxdist=3, allow_first=True):
    """move n payload segments later by <= maxdist positions *within their direction's burst* (bounded reordering)"""
    out = list(segs)
    for _ in range(n):
        cand = []
        for i, s in enumerate(out):
            if not s.payload:
                continue
            j = i
            while j + 1 < len(out) and out[j + 1].burst == s.burst and out[j + 1].dir == s.dir and j - i < maxdist:
                j += 1
            if j > i:
                if not allow_first and s.woff == 0:
                    continue
                cand.append((i, j))
        if not cand:
            break
        i, jmax = rng.choice(cand)
        j = rng.randrange(i + 1, jmax + 1)
        s = out.pop(i)
        out.insert(j, s)
    return out


def displace_across(segs, events, rng, n, maxdist=3):
    """move n application-phase payload segments later by <= maxdist positions of their own direction, *past whatever the other direction sent in between*: a capture
    point with one queue per direction (multi-queue NIC, bonded links, a tap merged from two fibres) shows a segment after the peer's reply that acknowledges it.  Only
    bursts of the application phase take part (the handshake's order across directions is what lets any observer find the keys)."""
    app = set(app_phase_bursts(events))
    out = list(segs)
    for _ in range(n):
        cand = []
        for i, s in enumerate(out):
            if not s.payload or s.dup or s.burst not in app:
                continue
            own, j, last = 0, i, None
            while j + 1 < len(out) and out[j + 1].burst in app and own < maxdist:
                j += 1
                if out[j].dir == s.dir:
                    own += 1
                else:
                    last = j        # a position behind a segment of the other direction
            if last is not None:
                cand.append((i, last, j))
        if not cand:
            break
        i, lo, hi = rng.choice(cand)
        j = rng.randrange(lo, hi + 1)
        x = out.pop(i)
        out.insert(j, x)
    return out


def app_phase_bursts(events):
    """indices of the bursts that consist of application-phase records only (application data, TLS 1.3 tickets):
    their order relative to the other direction is not constrained by the handshake"""
    out = []
    bi = -1
    last = None
    kinds = {}
    for e in events:
        if e.dir != last:
            bi += 1
            last = e.dir
            kinds[bi] = set()
        kinds[bi].add(e.kind)
    seen_app = False
    for b in sorted(kinds):
        if "app" in kinds[b]:
            seen_app = True
        if seen_app and kinds[b] <= {"app", "ehs"}:       # a burst with the final alert stays last: data after an alert is not claimed
            out.append(b)
    return out


def interleave_app(segs, events, rng):
    """full-duplex delivery: segments of neighbouring application-phase bursts of opposite directions are merged by an order-preserving
    random merge (each direction keeps its own order); ack numbers are recomputed from what has been captured so far"""
    ok = set(app_phase_bursts(events))
    out = []
    i = 0
    segs = list(segs)
    while i < len(segs):
        s = segs[i]
        if s.burst in ok and s.payload:
            # collect a run of consecutive app-phase bursts
            j = i
            run = []
            while j < len(segs) and segs[j].burst in ok and segs[j].payload and not segs[j].dup:
                run.append(segs[j])
                j += 1
            a = [x for x in run if x.dir == "c"]
            b = [x for x in run if x.dir == "s"]
            merged = []
            while a or b:
                pick = a if (a and (not b or rng.random() < len(a) / (len(a) + len(b)))) else b
                merged.append(pick.pop(0))
            out += merged
            i = j if j > i else i + 1
            if j == i:
                out.append(s)
        else:
            out.append(s)
            i += 1
    # recompute acknowledgement numbers: highest contiguous byte of the peer captured so far
    nxt = {}
    for s in out:
        o = "s" if s.dir == "c" else "c"
        if s.payload or s.flags & 0x02:
            end = (s.seq + len(s.payload) + (1 if s.flags & 0x02 else 0)) & 0xFFFFFFFF
            if s.dir not in nxt or ((end - nxt[s.dir]) & 0xFFFFFFFF) < 0x80000000:
                nxt[s.dir] = end
        if o in nxt and s.flags & 0x10:
            s.ack = nxt[o]
    return out


def add_tfo(segs, server=False):
    """TCP Fast Open (RFC 7413): the client's first data segment travels on the SYN.  The SYN occupies one sequence number, so the segment's sequence-number
    field is one below the number of its first payload octet; every other segment is unchanged.  server=True: if the SYN carried the client's whole first burst, the
    server's first data segment travels on the SYN/ACK likewise.  -> (segs, applied)"""
    out = list(segs)
    done = False
    for d, syn_flags in (("c", 0x02), ("s", 0x12)):
        isyn = next((i for i, x in enumerate(out) if x.dir == d and x.flags & 0x12 == syn_flags and not x.payload), None)
        idat = next((i for i, x in enumerate(out) if x.dir == d and x.payload and not x.dup), None)
        if isyn is None or idat is None or idat < isyn or out[idat].seq != (out[isyn].seq + 1) & 0xFFFFFFFF or any(x.dup for x in out[:idat + 1]):
            break
        a, b = out[isyn], out[idat]
        if d == "s":
            nxt = next((x for x in out[idat + 1:] if x.dir == "c" and x.payload), None)
            whole = not any(x.dir == "c" and x.payload and x.burst == 0 for x in out if not (x.flags & 0x02))
            if not (server and done and whole):
                break
        out[isyn] = Seg(d, a.seq, a.ack, a.flags, b.payload, b.woff, b.burst)
        del out[idat]
        done = True
    return out, done


def add_repacketized(segs, rng, n=1):
    """TCP repacketization: a retransmission that starts at the sequence number of an already captured segment but carries that segment's
    payload plus the following one(s) of the same burst (legal TCP; exact duplicates are add_duplicates' business)"""
    out = list(segs)
    for _ in range(n):
        cand = [i for i in range(len(out) - 1) if out[i].payload and not out[i].dup and out[i + 1].payload and out[i + 1].dir == out[i].dir
                and out[i + 1].burst == out[i].burst and out[i + 1].woff == out[i].woff + len(out[i].payload) and len(out[i].payload) + len(out[i + 1].payload) < 60000]
        if not cand:
            break
        i = rng.choice(cand)
        a, b = out[i], out[i + 1]
        k = rng.choice([1, 1, 2])
        payload = a.payload + b.payload
        last = i + 1
        if k == 2 and i + 2 < len(out) and out[i + 2].payload and out[i + 2].dir == a.dir and out[i + 2].burst == a.burst and out[i + 2].woff == b.woff + len(b.payload):
            payload += out[i + 2].payload
            last = i + 2
        # a retransmission may arrive right away or much later (after the retransmission timer), when the records were long complete
        j = rng.randrange(last + 1, min(len(out), last + 4) + 1) if rng.random() < 0.4 else rng.randrange(last + 1, len(out) + 1)
        out.insert(j, Seg(a.dir, a.seq, a.ack, a.flags, payload, a.woff, a.burst, True))
    return out
