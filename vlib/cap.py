"""Turn a connection's record events into TCP packets (causal, segmentable)."""
from dataclasses import dataclass

from . import netsynth as ns


@dataclass
class Endpoints:
    cmac: bytes
    smac: bytes
    cip: bytes
    sip: bytes
    cport: int
    sport: int
    cisn: int = 1000
    sisn: int = 5000


def default_ep(i=0, v6=False, sport=443):
    if v6:
        cip = bytes.fromhex("20010db8000000000000000000000000")[:-1] + bytes([10 + i])
        sip = bytes.fromhex("20010db8000000000000000000010000")[:-1] + bytes([1])
    else:
        cip, sip = bytes([10, 0, 0, 10 + i]), bytes([192, 0, 2, 1])
    return Endpoints(bytes([2, 0, 0, 0, 0, 10 + i]), bytes([2, 0, 0, 0, 1, 1]), cip, sip, 40000 + i, sport)


def tcp_packets(conn_events, ep: Endpoints, cutter, with_handshake=True):
    """-> list of dict(dir, seq, payload, frame_builder args); cutter(dir, nbytes) -> list of cut sizes.

    Consecutive same-direction records are joined into one burst; each burst is
    cut into segments by `cutter`.  A burst ends when the direction changes, so every
    reply follows the complete record it answers (causal order).
    """
    pk = []
    seq = {"c": ep.cisn, "s": ep.sisn}
    if with_handshake:
        pk.append(dict(dir="c", seq=seq["c"], ack=0, flags=0x02, payload=b""))
        seq["c"] += 1
        pk.append(dict(dir="s", seq=seq["s"], ack=seq["c"], flags=0x12, payload=b""))
        seq["s"] += 1
        pk.append(dict(dir="c", seq=seq["c"], ack=seq["s"], flags=0x10, payload=b""))
    bursts = []
    for d, rec, kind, pt in conn_events:
        if bursts and bursts[-1][0] == d:
            bursts[-1][1] += rec
        else:
            bursts.append([d, bytearray(rec)])
    for d, data in bursts:
        o = "s" if d == "c" else "c"
        off = 0
        for n in cutter(d, len(data)):
            chunk = bytes(data[off:off + n])
            off += n
            pk.append(dict(dir=d, seq=seq[d] & 0xFFFFFFFF, ack=seq[o] & 0xFFFFFFFF, flags=0x18, payload=chunk))
            seq[d] += n
        assert off == len(data)
    return pk


def frame(ep: Endpoints, p, bad_csum=False):
    if p["dir"] == "c":
        sm, dm, si, di, sp, dp = ep.cmac, ep.smac, ep.cip, ep.sip, ep.cport, ep.sport
    else:
        sm, dm, si, di, sp, dp = ep.smac, ep.cmac, ep.sip, ep.cip, ep.sport, ep.cport
    seg = ns.tcp_segment(si, di, sp, dp, p["seq"], p["ack"], p["flags"], p["payload"], bad_csum=bad_csum)
    return ns.eth_frame(sm, dm, ns.ip_packet(si, di, 6, seg))


def cut_whole(d, n):
    return [n]


def cut_mss(mss):
    def f(d, n):
        out = []
        while n > 0:
            out.append(min(mss, n))
            n -= out[-1]
        return out
    return f


def cut_random(rng, maxseg=1460, minseg=1):
    def f(d, n):
        out = []
        while n > 0:
            k = min(n, rng.randrange(minseg, maxseg + 1))
            out.append(k)
            n -= k
        return out
    return f
