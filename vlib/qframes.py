"""QUIC frame encoders (RFC 9000 sec. 19, RFC 9221) with ground truth, selectable varint widths (non-minimal included)."""


def varint(v, width=None):
    """width None: minimal; 1/2/4/8: that width (must fit)"""
    for ln, pre in ((1, 0), (2, 1), (4, 2), (8, 3)):
        if v < 1 << (8 * ln - 2) and (width is None or ln >= width):
            return ((pre << (8 * ln - 2)) | v).to_bytes(ln, "big")
    raise ValueError((v, width))


def rand_width(rng, v, nonmin=True):
    need = 1 if v < 64 else 2 if v < 16384 else 4 if v < 1 << 30 else 8
    if not nonmin:
        return need
    return rng.choice([w for w in (1, 2, 4, 8) if w >= need])


class W:
    """varint writer with a width policy: 'min' | 'rand' | fixed int"""

    def __init__(self, rng, policy="min"):
        self.rng, self.policy = rng, policy

    def __call__(self, v):
        if self.policy == "min":
            return varint(v)
        if self.policy == "rand":
            return varint(v, rand_width(self.rng, v))
        return varint(v, max(self.policy, rand_width(self.rng, v, False)))


# every encoder returns (bytes, truth) ; truth = dict(kind=..., fields...)
def padding(n):
    return bytes(n), {"kind": "PADDING", "n": n}


def ping():
    return b"\x01", {"kind": "PING"}


def ack(w, largest, delay, first, ranges=(), ecn=None):
    b = bytes([3 if ecn else 2]) + w(largest) + w(delay) + w(len(ranges)) + w(first)
    for g, r in ranges:
        b += w(g) + w(r)
    if ecn:
        b += b"".join(w(x) for x in ecn)
    return b, {"kind": "ACK", "type": 3 if ecn else 2, "largest_acknowledged": largest, "ack_delay": delay, "first_ack_range": first,
               "ack_ranges": [list(x) for x in ranges], "ecn": list(ecn) if ecn else None}


def reset_stream(w, sid, err, final):
    return b"\x04" + w(sid) + w(err) + w(final), {"kind": "RESET_STREAM", "stream_id": sid, "application_protocol_error_code": err, "final_size": final}


def stop_sending(w, sid, err):
    return b"\x05" + w(sid) + w(err), {"kind": "STOP_SENDING", "stream_id": sid, "application_protocol_error_code": err}


def crypto(w, off, data):
    return b"\x06" + w(off) + w(len(data)) + data, {"kind": "CRYPTO", "offset": off, "crypto": data}


def new_token(w, tok):
    return b"\x07" + w(len(tok)) + tok, {"kind": "NEW_TOKEN", "token": tok}


def stream(w, sid, data, off=None, fin=False, explicit_len=True):
    """off None => OFF bit clear (offset 0 implied)"""
    t = 0x08 | (4 if off is not None else 0) | (2 if explicit_len else 0) | (1 if fin else 0)
    b = bytes([t]) + w(sid)
    if off is not None:
        b += w(off)
    if explicit_len:
        b += w(len(data))
    return b + data, {"kind": "STREAM", "type": t, "stream_id": sid, "offset": off or 0, "fin": fin, "stream_data": data, "explicit_len": explicit_len}


def max_data(w, v):
    return b"\x10" + w(v), {"kind": "MAX_DATA", "maximum_data": v}


def max_stream_data(w, s, v):
    return b"\x11" + w(s) + w(v), {"kind": "MAX_STREAM_DATA", "stream_id": s, "maximum_stream_data": v}


def max_streams(w, v, uni=False):
    return bytes([0x13 if uni else 0x12]) + w(v), {"kind": "MAX_STREAMS", "type": 0x13 if uni else 0x12, "maximum_streams": v}


def data_blocked(w, v):
    return b"\x14" + w(v), {"kind": "DATA_BLOCKED", "maximum_data": v}


def stream_data_blocked(w, s, v):
    return b"\x15" + w(s) + w(v), {"kind": "STREAM_DATA_BLOCKED", "stream_id": s, "maximum_stream_data": v}


def streams_blocked(w, v, uni=False):
    return bytes([0x17 if uni else 0x16]) + w(v), {"kind": "STREAMS_BLOCKED", "type": 0x17 if uni else 0x16, "maximum_streams": v}


def new_connection_id(w, seq, retire, cid, token):
    assert len(token) == 16 and 1 <= len(cid) <= 20
    return b"\x18" + w(seq) + w(retire) + bytes([len(cid)]) + cid + token, \
        {"kind": "NEW_CONNECTION_ID", "sequence_number": seq, "retire_prior_to": retire, "connection_id": cid, "stateless_reset_token": token}


def retire_connection_id(w, seq):
    return b"\x19" + w(seq), {"kind": "RETIRE_CONNECTION_ID", "sequence_number": seq}


def path_challenge(data):
    assert len(data) == 8
    return b"\x1a" + data, {"kind": "PATH_CHALLENGE", "data": data}


def path_response(data):
    assert len(data) == 8
    return b"\x1b" + data, {"kind": "PATH_RESPONSE", "data": data}


def connection_close(w, err, ftype=None, reason=b""):
    if ftype is None:
        return b"\x1d" + w(err) + w(len(reason)) + reason, {"kind": "CONNECTION_CLOSE", "type": 0x1d, "error_code": err, "reason_phrase": reason}
    return b"\x1c" + w(err) + w(ftype) + w(len(reason)) + reason, \
        {"kind": "CONNECTION_CLOSE", "type": 0x1c, "error_code": err, "close_frame_type": ftype, "reason_phrase": reason}


def handshake_done():
    return b"\x1e", {"kind": "HANDSHAKE_DONE"}


def datagram(w, data, explicit_len=True):
    if explicit_len:
        return b"\x31" + w(len(data)) + data, {"kind": "DATAGRAM", "type": 0x31, "payload": data}
    return b"\x30" + data, {"kind": "DATAGRAM", "type": 0x30, "payload": data}


KIND_OF_TYPE = {0: "PADDING", 1: "PING", 2: "ACK", 3: "ACK", 4: "RESET_STREAM", 5: "STOP_SENDING", 6: "CRYPTO", 7: "NEW_TOKEN",
                **{t: "STREAM" for t in range(8, 16)}, 0x10: "MAX_DATA", 0x11: "MAX_STREAM_DATA", 0x12: "MAX_STREAMS", 0x13: "MAX_STREAMS",
                0x14: "DATA_BLOCKED", 0x15: "STREAM_DATA_BLOCKED", 0x16: "STREAMS_BLOCKED", 0x17: "STREAMS_BLOCKED", 0x18: "NEW_CONNECTION_ID",
                0x19: "RETIRE_CONNECTION_ID", 0x1a: "PATH_CHALLENGE", 0x1b: "PATH_RESPONSE", 0x1c: "CONNECTION_CLOSE", 0x1d: "CONNECTION_CLOSE",
                0x1e: "HANDSHAKE_DONE", 0x30: "DATAGRAM", 0x31: "DATAGRAM"}

_BIG = [0, 1, 63, 64, 16383, 16384, (1 << 30) - 1, 1 << 30, (1 << 62) - 1]


def rint(rng, big=True):
    r = rng.random()
    if r < 0.5:
        return rng.randrange(0, 64)
    if r < 0.7 or not big:
        return rng.randrange(0, 16384)
    if r < 0.85:
        return rng.choice(_BIG)
    return rng.randrange(0, 1 << 62)


def random_frame(rng, w, allow=None, last=False, stream_only_len=True, maxdata=300, big_ack=False):
    """one random non-STREAM-LEN-less frame (unless last) -> (bytes, truth)"""
    kinds = allow or ["PADDING", "PING", "ACK", "RESET_STREAM", "STOP_SENDING", "CRYPTO", "NEW_TOKEN", "STREAM", "MAX_DATA", "MAX_STREAM_DATA",
                      "MAX_STREAMS", "DATA_BLOCKED", "STREAM_DATA_BLOCKED", "STREAMS_BLOCKED", "NEW_CONNECTION_ID", "RETIRE_CONNECTION_ID",
                      "PATH_CHALLENGE", "PATH_RESPONSE", "CONNECTION_CLOSE", "HANDSHAKE_DONE", "DATAGRAM"]
    k = rng.choice(kinds)
    rb = rng.randbytes
    if k == "PADDING":
        return padding(rng.randrange(1, 20))
    if k == "PING":
        return ping()
    if k == "ACK":
        nr = rng.choice([0, 0, 1, 2, 5])
        if big_ack and rng.random() < 0.05:
            # a receiver that saw every other packet of a long burst: hundreds of ranges of small numbers (Range Count is a varint, RFC 9000 19.3 sets no limit)
            nr = rng.choice([63, 64, 65, 255, 256, 257, 300, 700])
            return ack(w, rint(rng), rint(rng, False), rng.randrange(0, 64), [(rng.randrange(0, 64), rng.randrange(0, 64)) for _ in range(nr)],
                       [rint(rng), rint(rng), rint(rng)] if rng.random() < 0.3 else None)
        return ack(w, rint(rng), rint(rng, False), rint(rng, False), [(rint(rng, False), rint(rng, False)) for _ in range(nr)],
                   [rint(rng), rint(rng), rint(rng)] if rng.random() < 0.3 else None)
    if k == "RESET_STREAM":
        return reset_stream(w, rint(rng), rint(rng), rint(rng))
    if k == "STOP_SENDING":
        return stop_sending(w, rint(rng), rint(rng))
    if k == "CRYPTO":
        return crypto(w, rint(rng), rb(rng.choice([0, 1, 5, rng.randrange(0, maxdata)])))
    if k == "NEW_TOKEN":
        return new_token(w, rb(rng.randrange(1, 60)))
    if k == "STREAM":
        el = True if not last else rng.random() < 0.5
        return stream(w, rint(rng), rb(rng.choice([0, 1, 2, rng.randrange(0, maxdata)])), off=rint(rng) if rng.random() < 0.5 else None,
                      fin=rng.random() < 0.3, explicit_len=el)
    if k == "MAX_DATA":
        return max_data(w, rint(rng))
    if k == "MAX_STREAM_DATA":
        return max_stream_data(w, rint(rng), rint(rng))
    if k == "MAX_STREAMS":
        return max_streams(w, rint(rng, False), rng.random() < 0.5)
    if k == "DATA_BLOCKED":
        return data_blocked(w, rint(rng))
    if k == "STREAM_DATA_BLOCKED":
        return stream_data_blocked(w, rint(rng), rint(rng))
    if k == "STREAMS_BLOCKED":
        return streams_blocked(w, rint(rng, False), rng.random() < 0.5)
    if k == "NEW_CONNECTION_ID":
        return new_connection_id(w, rint(rng, False), rint(rng, False), rb(rng.randrange(1, 21)), rb(16))
    if k == "RETIRE_CONNECTION_ID":
        return retire_connection_id(w, rint(rng, False))
    if k == "PATH_CHALLENGE":
        return path_challenge(rb(8))
    if k == "PATH_RESPONSE":
        return path_response(rb(8))
    if k == "CONNECTION_CLOSE":
        return connection_close(w, rint(rng), rint(rng, False) if rng.random() < 0.5 else None, rb(rng.randrange(0, 30)))
    if k == "HANDSHAKE_DONE":
        return handshake_done()
    if k == "DATAGRAM":
        el = True if not last else rng.random() < 0.5
        return datagram(w, rb(rng.randrange(0, maxdata)), el)
    raise ValueError(k)


def normalise(truths):
    """merge consecutive PADDING runs (a run of n zero bytes is n PADDING frames on the wire; one is as good as n)"""
    out = []
    for t in truths:
        if t["kind"] == "PADDING" and out and out[-1]["kind"] == "PADDING":
            out[-1] = {"kind": "PADDING", "n": out[-1]["n"] + t["n"]}
        else:
            out.append(dict(t))
    return out
