"""Reference TLS record *protection* (the sending side) for SSL3.0 .. TLS1.3.

One Writer per direction; state (sequence number, CBC residue, RC4 stream)
lives here so that histories of records are encrypted as a real endpoint would.
"""
import zlib
import hashlib
import hmac as _hmac
import os
import warnings

with warnings.catch_warnings():
    warnings.simplefilter("ignore")
    from cryptography.hazmat.primitives.ciphers import Cipher
    from cryptography.hazmat.primitives.ciphers.algorithms import AES, TripleDES, Camellia, IDEA, ARC4
    from cryptography.hazmat.primitives.ciphers.modes import CBC
    from cryptography.hazmat.primitives.ciphers.aead import AESGCM, AESCCM, ChaCha20Poly1305

_ALG = {"AES": AES, "CAMELLIA": Camellia, "3DES": TripleDES, "IDEA": IDEA}


def ssl3_mac(hname, secret, seq, ctype, data):
    padlen = 48 if hname == "md5" else 40
    inner = hashlib.new(hname, secret + b"\x36" * padlen + seq.to_bytes(8, "big") + bytes([ctype]) +
                        len(data).to_bytes(2, "big") + data).digest()
    return hashlib.new(hname, secret + b"\x5c" * padlen + inner).digest()


class Writer:
    def __init__(self, version, p, key, iv, mac_key, rng, etm=False):
        """version 0x0300..0x0304; p = suites.parse_name(); iv = implicit IV / salt / 1.3 iv"""
        self.v, self.p, self.key, self.iv, self.mac_key, self.rng, self.etm = version, p, key, iv, mac_key, rng, etm
        self.seq = 0
        self.deflate = None       # TLS <= 1.2 with compression method 1 (RFC 3749): a zlib.compressobj() for this direction, one DEFLATE stream over all protected records
        if p["cipher"] == "RC4":
            self.rc4 = Cipher(ARC4(key), mode=None).encryptor()
        self.residue = iv  # SSL3/TLS1.0 CBC

    def rekey(self, key, iv):
        self.key, self.iv, self.seq = key, iv, 0

    # -- helpers
    def _mac(self, ctype, wire_ver, data):
        if self.v == 0x0300:
            return ssl3_mac(self.p["mac"], self.mac_key, self.seq, ctype, data)
        hdr = self.seq.to_bytes(8, "big") + bytes([ctype]) + wire_ver + len(data).to_bytes(2, "big")
        return _hmac.new(self.mac_key, hdr + data, self.p["mac"]).digest()

    def _pad(self, n, bs, extra_blocks):
        padlen = bs - (n + 1) % bs
        if padlen == bs:
            padlen = 0
        if self.v == 0x0300:
            return bytes(self.rng.getrandbits(8) for _ in range(padlen)) + bytes([padlen])
        padlen += bs * extra_blocks
        if padlen > 255:
            padlen -= bs * ((padlen - 255 + bs - 1) // bs)
        return bytes([padlen]) * (padlen + 1)

    def protect(self, ctype, data, wire_ver=None, pad13=0, extra_pad_blocks=0, explicit_nonce=None):
        """-> full record bytes (5-byte header + fragment)"""
        v, p = self.v, self.p
        if wire_ver is None:
            wire_ver = (0x0303 if v == 0x0304 else v).to_bytes(2, "big")
        if v == 0x0304:
            inner = data + bytes([ctype]) + bytes(pad13)
            ln = len(inner) + p["tag_len"]
            hdr = b"\x17\x03\x03" + ln.to_bytes(2, "big")
            nonce = bytes(a ^ b for a, b in zip(self.iv, self.seq.to_bytes(12, "big")))
            frag = self._aead().encrypt(nonce, inner, hdr)
            self.seq += 1
            return hdr + frag
        if self.deflate is not None:
            data = self.deflate.compress(data) + self.deflate.flush(zlib.Z_SYNC_FLUSH)       # TLSCompressed.fragment: MAC and encryption work on this
        if p["aead"]:
            aad = self.seq.to_bytes(8, "big") + bytes([ctype]) + wire_ver + len(data).to_bytes(2, "big")
            if p["mode"] == "CHACHA":
                nonce = bytes(a ^ b for a, b in zip(self.iv, self.seq.to_bytes(12, "big")))
                frag = self._aead().encrypt(nonce, data, aad)
            else:
                en = explicit_nonce if explicit_nonce is not None else self.seq.to_bytes(8, "big")
                frag = en + self._aead().encrypt(self.iv + en, data, aad)
        elif p["mode"] == "STREAM":
            frag = self.rc4.update(data + self._mac(ctype, wire_ver, data))
        else:  # CBC
            bs = p["block"]
            alg = _ALG[p["cipher"]](self.key)
            if self.etm:
                body = data
            else:
                body = data + self._mac(ctype, wire_ver, data)
            body += self._pad(len(body), bs, extra_pad_blocks)
            if v >= 0x0302:
                iv = bytes(self.rng.getrandbits(8) for _ in range(bs))
                enc = Cipher(alg, CBC(iv)).encryptor()
                frag = iv + enc.update(body) + enc.finalize()
            else:
                enc = Cipher(alg, CBC(self.residue)).encryptor()
                frag = enc.update(body) + enc.finalize()
                self.residue = frag[-bs:]
            if self.etm:
                hdr = self.seq.to_bytes(8, "big") + bytes([ctype]) + wire_ver + len(frag).to_bytes(2, "big")
                frag += _hmac.new(self.mac_key, hdr + frag, p["mac"]).digest()
        self.seq += 1
        return bytes([ctype]) + wire_ver + len(frag).to_bytes(2, "big") + frag

    def _aead(self):
        m = self.p["mode"]
        if m == "GCM":
            return AESGCM(self.key)
        if m == "CCM":
            return AESCCM(self.key, self.p["tag_len"])
        return ChaCha20Poly1305(self.key)


def plain_record(ctype, wire_ver, data):
    return bytes([ctype]) + wire_ver + len(data).to_bytes(2, "big") + data
