"""Scenes: one or several connections (TLS over TCP, QUIC, noise) merged into one capture with ground truth."""
from dataclasses import dataclass, field

from . import netsynth as ns, tcpcap


@dataclass
class Item:
    frame: bytes
    conn: int = -1          # index of the connection it belongs to (-1 noise)
    dir: str = ""
    ts: int = 0             # microseconds since the epoch
    seg: object = None      # tcpcap.Seg for TCP items
    tag: str = ""           # free text (packet kind)


@dataclass
class Flow:
    kind: str               # 'tls' | 'quic' | 'noise'
    ep: object
    items: list             # [Item] in send order (ts unset)
    conn: object = None     # tlssynth.Conn | quicsynth.QConn
    keylog: list = field(default_factory=list)


def tls_flow(conn, ep, segs, bad=(), ethpad=False):
    """ethpad: frames shorter than the 60-byte Ethernet minimum carry zero padding behind the IP datagram, as a receiver-side capture shows them"""
    items = [Item(tcpcap.frame(ep, s, bad_csum=(i in bad)), dir=s.dir, seg=s, tag="tcp") for i, s in enumerate(segs)]
    if ethpad:
        for it in items:
            if len(it.frame) < 60:
                it.frame = it.frame + bytes(60 - len(it.frame))
    return Flow("tls", ep, items, conn, list(conn.keylog))


def stale_item(items, ep, rng, conn=-1, kind=None):
    """-> (position, Item, description) or None: one TCP segment that carries nothing new, to be inserted into the capture-ordered items of one connection -
    a keep-alive probe (RFC 1122 4.2.3.6: one octet at SND.NXT-1, garbage or zero, or the last octet sent) after the data sent so far, or a retransmission that
    starts *inside* an already captured segment (re-segmentation after a path-MTU change, a partially acknowledged segment)."""
    data = [(i, it) for i, it in enumerate(items) if it.seg is not None and getattr(it.seg, "payload", None) and not it.seg.dup and not it.seg.flags & 0x02 and (conn < 0 or it.conn == conn)]
    if not data:
        return None
    i, it = rng.choice(data)
    s = it.seg
    kind = kind or rng.choice(["keepalive-garbage", "keepalive-zero", "keepalive-last", "offset", "offset"])
    later = [j for j, x in data if j > i and x.seg.dir == s.dir]
    if kind.startswith("keepalive"):
        # the probe repeats the sequence number in front of SND.NXT: it follows the direction's last captured data segment so far, before the direction's next one
        pos = rng.randrange(i + 1, (later[0] if later else len(items)) + 1)
        byte = {"keepalive-garbage": rng.randbytes(1), "keepalive-zero": b"\x00", "keepalive-last": s.payload[-1:]}[kind]
        new = tcpcap.Seg(s.dir, (s.seq + len(s.payload) - 1) & 0xFFFFFFFF, s.ack, 0x10, byte, -1, s.burst, True)
    else:
        if len(s.payload) < 2:
            return None
        k = rng.randrange(1, len(s.payload))
        pos = rng.randrange(i + 1, len(items) + 1)
        new = tcpcap.Seg(s.dir, (s.seq + k) & 0xFFFFFFFF, s.ack, 0x18, s.payload[k:], -1, s.burst, True)
    return pos, Item(tcpcap.frame(ep, new), conn=it.conn, dir=s.dir, ts=0, seg=new, tag="tcp-stale"), f"{kind} segment of direction {s.dir} (seq {new.seq}, {len(new.payload)} octet(s)) inserted at {pos}"


def merge(flows, rng, mode="random"):
    """order-preserving merge of the flows' item lists -> [Item] with .conn set; modes: concat | roundrobin | bursty | random | nested"""
    lists = [list(f.items) for f in flows]
    for ci, l in enumerate(lists):
        for it in l:
            it.conn = ci
    out = []
    if mode == "concat":
        for l in lists:
            out += l
        return out
    if mode == "nested" and len(lists) >= 2:
        # connection 1..n entirely inside connection 0's handshake (after its first two data packets)
        head = lists[0][:5]
        out = head + [it for l in lists[1:] for it in l] + lists[0][5:]
        return out
    idx = [0] * len(lists)
    live = [i for i, l in enumerate(lists) if l]
    cur = None
    while live:
        if mode == "roundrobin":
            cur = live[(live.index(cur) + 1) % len(live)] if cur in live else live[0]
            take = 1
        elif mode == "bursty":
            cur = rng.choice(live)
            take = rng.randrange(1, 12)
        else:
            cur = rng.choice(live)
            take = 1
        for _ in range(take):
            if idx[cur] >= len(lists[cur]):
                break
            out.append(lists[cur][idx[cur]])
            idx[cur] += 1
        live = [i for i in live if idx[i] < len(lists[i])]
    return out


TS_STYLES = ["plain", "edge-low", "edge-high", "y2100", "pow2", "dense", "zero"]      # "coarse" (equal stamps) is for TLS-only captures: QUIC needs distinct ones


def stamp(items, rng, style="plain", grid=1):
    """assign strictly increasing integer-microsecond timestamps; `grid`: all stamps are multiples of it (for containers with coarse resolution)"""
    if style == "y2100":
        t = 4102444800 * 10 ** 6 + rng.randrange(0, 10 ** 6)
    elif style == "pow2":
        t = (1 << rng.choice([30, 31])) * 10 ** 6 - 3
    elif style in ("zero", "coarse"):
        t = 0           # relative capture clock: the first packet is stamped 0
    else:
        t = 1700000000 * 10 ** 6 + rng.randrange(0, 10 ** 9)
    t -= t % grid
    first = True
    for it in items:
        if style == "zero" and first:
            it.ts = prev = 0
            first = False
            continue
        if style == "coarse":      # one-second clock: many packets share a stamp, the first ones are at 0
            if not first and rng.random() < 0.25:
                t += 10 ** 6 * rng.choice([1, 1, 2])
            it.ts = prev = t
            first = False
            continue
        first = False
        if style == "edge-low":
            step = rng.choice([1, 2, 999999, 1000000, 1000001])
            t += step
            if rng.random() < 0.5:
                t += (1 - t) % 10 ** 6       # ...000001
        elif style == "edge-high":
            t += rng.choice([1, 999998, 999999])
            if rng.random() < 0.5:
                t += (999999 - t) % 10 ** 6  # ...999999
        elif style == "dense":
            t += 1
        else:
            t += rng.choice([1, 7, 130, 2500, 40000, 1000000 + rng.randrange(10 ** 6)])
        if grid > 1:
            t += (-t) % grid
            if it is not items[0] and t <= prev:
                t = prev + grid
        it.ts = t
        prev = t
    return items


def decoy_lines(flows, rng):
    """key-log lines of connections that are NOT in the capture: unrelated ones, and ones that share their secret value with a captured
    connection under a different client random (the log of a session that was resumed elsewhere)"""
    out = []
    real = [l for f in flows for l in f.keylog]
    for _ in range(rng.choice([1, 2, 4])):
        r = rng.random()
        if r < 0.5 and real:
            a, b, c = rng.choice(real).split(" ")
            out.append(f"{a} {rng.randbytes(32).hex()} {c}")            # same secret, other client random
        elif r < 0.8:
            out.append(f"CLIENT_RANDOM {rng.randbytes(32).hex()} {rng.randbytes(48).hex()}")
        else:
            cr = rng.randbytes(32).hex()
            out += [f"{lab} {cr} {rng.randbytes(32).hex()}" for lab in ("CLIENT_HANDSHAKE_TRAFFIC_SECRET", "SERVER_TRAFFIC_SECRET_0", "CLIENT_TRAFFIC_SECRET_0")]
    return out


def keylog_text(flows, rng=None, shuffle=True, eol="\n", decoys=False):
    lines = []
    for f in flows:
        # hex case varies per connection (tools differ): a quarter of the connections log their client random in upper case, a quarter their secrets
        mode = int(f.keylog[0].split(" ")[1][:2], 16) % 4 if f.keylog else 3
        for l in f.keylog:
            a, b, c = l.split(" ")
            lines.append(f"{a} {b.upper() if mode == 0 else b} {c.upper() if mode == 1 else c}")
    if decoys and rng is not None:
        lines += decoy_lines(flows, rng)
    if rng is not None and shuffle:
        rng.shuffle(lines)
    return (eol.join(lines) + eol).encode() if lines else b""


def capture(items, le=True, **kw):
    return ns.pcapng([("pkt", it.ts, it.frame) for it in items], le=le, **kw)


# ------------------------------------------------------------------ noise flows
def http_on_443(rng, i=0, v6=False):
    ep = tcpcap.default_ep(200 + i, v6, 443)
    req = b"GET / HTTP/1.1\r\nHost: example.com\r\n\r\n"
    rsp = b"HTTP/1.1 400 Bad Request\r\nContent-Length: 0\r\n\r\n" + rng.randbytes(rng.randrange(0, 400))
    segs = [tcpcap.Seg("c", 1, 1, 0x18, req, 0, 0), tcpcap.Seg("s", 1, 1 + len(req), 0x18, rsp, 0, 1)]
    return Flow("noise", ep, [Item(tcpcap.frame(ep, s), dir=s.dir, seg=s, tag="http443") for s in segs])


def big_junk_on_443(rng, i=0, v6=False):
    """non-TLS bytes on port 443 that look like one huge handshake-typed record (type 22, length 20000..65535): with -a such a 'record' is exported as it stands"""
    ep = tcpcap.default_ep(210 + i, v6, 443)
    n = rng.choice([19990, 20000, 30000, 65535])
    rec = b"\x16\x03\x03" + n.to_bytes(2, "big") + bytes([rng.choice([1, 2, 11, 0x99])]) + rng.randbytes(n - 1)
    segs, seq = [], 1
    for off in range(0, len(rec), 60000):
        chunk = rec[off:off + 60000]
        segs.append(tcpcap.Seg("c", seq, 1, 0x18, chunk, off, 0))
        seq += len(chunk)
    return Flow("noise", ep, [Item(tcpcap.frame(ep, s_), dir=s_.dir, seg=s_, tag="junk443") for s_ in segs])


def tls_on_other_port(conn, rng, i=0, v6=False, port=8443):
    ep = tcpcap.default_ep(210 + i, v6, port)
    segs = tcpcap.segments(conn.events, ep, tcpcap.cut_mss(1460))
    return Flow("noise", ep, [Item(tcpcap.frame(ep, s), dir=s.dir, seg=s, tag="tls-other-port") for s in segs])


def udp_noise(rng, n=4, i=0, v6=False, port=None, payloads=None):
    ep = tcpcap.default_ep(220 + i, v6, port or rng.choice([53, 443, 4433, 5353, 50000]))
    items = []
    for k in range(n):
        pl = payloads[k] if payloads else rng.randbytes(rng.randrange(1, 300))
        if not payloads:
            pl = bytes([pl[0] & 0xBF]) + pl[1:]      # fixed bit clear: DNS-like, not QUIC
        d = "cs"[k % 2]
        if d == "c":
            u = ns.udp_datagram(ep.cip, ep.sip, ep.cport, ep.sport, pl)
            fr = ns.eth_frame(ep.cmac, ep.smac, ns.ip_packet(ep.cip, ep.sip, 17, u))
        else:
            u = ns.udp_datagram(ep.sip, ep.cip, ep.sport, ep.cport, pl)
            fr = ns.eth_frame(ep.smac, ep.cmac, ns.ip_packet(ep.sip, ep.cip, 17, u))
        items.append(Item(fr, dir=d, tag="udp-noise"))
    return Flow("noise", ep, items)


def link_noise(rng, n=3, i=0):
    """frames every real capture holds next to the TLS/QUIC traffic: ARP, LLDP (non-IP), ICMP echo, ICMPv6 neighbour solicitation, IGMP-like IP protocol 2"""
    import struct
    ep = tcpcap.default_ep(230 + i, False, 443)
    ep6 = tcpcap.default_ep(230 + i, True, 443)
    items = []
    for k in range(n):
        kind = rng.choice(["arp", "arp", "lldp", "icmp", "icmp6", "igmp", "runt", "frag"])
        if kind == "frag":
            # IPv4 fragments of a datagram / segment to a watched port: the first fragment (MF set) starts with a transport header that promises more than the frame
            # holds, the later ones (offset > 0) start in the middle of the payload; or an IPv6 packet with a fragment header
            proto = rng.choice([6, 17])
            body = rng.choice([b"\x16\x03\x01\x02\x00\x01\x00\x01\xfc\x03\x03", b"\xc3\x00\x00\x00\x01\x08", b""]) + rng.randbytes(rng.choice([8, 64, 600]))
            if proto == 6:
                l4 = ns.tcp_segment(ep.cip, ep.sip, ep.cport, 443, 1000, 2000, 0x18, body + rng.randbytes(700))
            else:
                l4 = ns.udp_datagram(ep.cip, ep.sip, ep.cport, 443, body + rng.randbytes(700))
            which = rng.choice(["first", "middle", "last", "v6"])
            if which == "v6":
                pkt = struct.pack("!IHBB16s16s", 0x60000000, 8 + 64, 44, 64, ep6.cip, ep6.sip) + bytes([proto, 0]) + struct.pack("!HI", rng.choice([0x0001, 0x0041, 0x0040]), 7) + l4[:64]
                fr = ep6.smac + ep6.cmac + b"\x86\xdd" + pkt
            else:
                off8, mf, chunk = {"first": (0, 1, l4[:64]), "middle": (8, 1, l4[64:128]), "last": (16, 0, l4[128:160])}[which]
                hdr = struct.pack("!BBHHHBBH4s4s", 0x45, 0, 20 + len(chunk), 77, (mf << 13) | off8, 64, proto, 0, ep.cip, ep.sip)
                hdr = hdr[:10] + struct.pack("!H", ns.csum16(hdr)) + hdr[12:]
                fr = ep.smac + ep.cmac + b"\x08\x00" + hdr + chunk
            items.append(Item(fr, dir="c", tag="link-noise"))
            continue
        if kind == "runt":
            # a frame that ends inside its link-layer header (runt, or a capture filter's snap length on one interface): 0..21 octets, every header kind whose
            # decoder wants more than the 14 octets of the Ethernet header (VLAN tags, MPLS, PPPoE, 802.2 LLC/SNAP) and the plain IP types
            et = rng.choice([b"\x81\x00", b"\x81\x00", b"\x88\xa8", b"\x88\xa8\x00\x05\x81\x00", b"\x88\x47", b"\x88\x64", b"\x08\x00", b"\x86\xdd", b"\x00\x2e", b"\x05\xdc"])
            fr = (ep.smac + ep.cmac + et + rng.randbytes(8))[:rng.randrange(0, 22)]
        elif kind == "arp":
            body = struct.pack("!HHBBH", 1, 0x0800, 6, 4, rng.choice([1, 2])) + ep.cmac + ep.cip + (bytes(6) if k % 2 == 0 else ep.smac) + ep.sip
            fr = b"\xff" * 6 + ep.cmac + b"\x08\x06" + body + bytes(18)
        elif kind == "lldp":
            fr = bytes.fromhex("0180c200000e") + ep.smac + b"\x88\xcc" + rng.randbytes(rng.randrange(20, 80))
        elif kind == "icmp":
            fr = ns.eth_frame(ep.cmac, ep.smac, ns.ip_packet(ep.cip, ep.sip, 1, b"\x08\x00" + rng.randbytes(rng.randrange(6, 60))))
        elif kind == "icmp6":
            fr = ns.eth_frame(ep6.cmac, ep6.smac, ns.ip_packet(ep6.cip, ep6.sip, 58, b"\x87\x00" + rng.randbytes(22)))
        else:
            fr = ns.eth_frame(ep.cmac, ep.smac, ns.ip_packet(ep.cip, ep.sip, 2, rng.randbytes(8)))
        items.append(Item(fr, dir="c", tag="link-noise"))
    return Flow("noise", ep, items)


def udp_frame(ep, d, payload, bad_csum=False):
    enc = getattr(ep, "encap", ns.PLAIN)
    if d == "c":
        u = ns.udp_datagram(ep.cip, ep.sip, ep.cport, ep.sport, payload, bad_csum=bad_csum)
        return ns.eth_frame(ep.cmac, ep.smac, ns.ip_packet(ep.cip, ep.sip, 17, u, opts=enc.opts, ext=enc.ext), vlan=enc.vlan)
    u = ns.udp_datagram(ep.sip, ep.cip, ep.sport, ep.cport, payload, bad_csum=bad_csum)
    return ns.eth_frame(ep.smac, ep.cmac, ns.ip_packet(ep.sip, ep.cip, 17, u, opts=enc.opts, ext=enc.ext), vlan=enc.vlan)


def quic_flow(qconn, ep):
    items = [Item(udp_frame(ep, g.dir, g.data), dir=g.dir, tag="quic", seg=g) for g in qconn.dgrams]
    return Flow("quic", ep, items, qconn, list(qconn.keylog))
