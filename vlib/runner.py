"""Executor: run the real TLExport entry point (tlexport.main.run) once per case in a forked child.

The parent imports tlexport.main from the repository's *current working tree* exactly once per check invocation (fresh
interpreter, byte-code cache disabled, so edits to /repo are always picked up) and is never allowed to call run() itself:
every case gets a pristine copy of the module-level state (server_ports, keylog, sessions, quic_sessions) by fork().
"""
import faulthandler
import os
import re
import resource
import shutil
import signal
import sys
import tempfile
import time
import traceback
import warnings

sys.dont_write_bytecode = True
REPO = os.environ.get("TLE_REPO", "/repo")
warnings.simplefilter("ignore")
if REPO not in sys.path:
    sys.path.insert(0, REPO)
import logging  # noqa: E402

logging.getLogger("scapy.runtime").setLevel(logging.ERROR)
from . import cover  # noqa: E402  (development aid, inert unless VERIF_COVER is set)

cover.start()
IMPORT_ERROR = None
_argv = sys.argv
try:
    sys.argv = ["tlexport", "--help-is-not-wanted-at-import"]
    import tlexport.main as tmain  # noqa: E402  (preloaded once; children are forked from here)
except BaseException:       # the program cannot even be imported (or runs at import time): every run of it is a failed run, which the checks report
    tmain = None
    IMPORT_ERROR = traceback.format_exc()
finally:
    sys.argv = _argv

assert tmain is None or os.path.realpath(tmain.__file__).startswith(os.path.realpath(REPO) + os.sep), tmain.__file__

_CPU_HITS = [0]
CHILD_AT_EXIT = []   # callables run in the forked child just before it exits (monitors flush their event logs here)

SHM = "/dev/shm" if os.path.isdir("/dev/shm") and os.access("/dev/shm", os.W_OK) else None


class Result:
    __slots__ = ("status", "out", "outs", "stdout", "stderr", "wall", "events", "cpu")

    def __init__(self, status, outs, stdout, stderr, wall, events):
        self.status, self.outs, self.stdout, self.stderr, self.wall, self.events = status, outs, stdout, stderr, wall, events
        self.out = outs[0] if outs else None

    def __repr__(self):
        return f"<Result {self.status} out={None if self.out is None else len(self.out)}B {self.wall:.3f}s>"

    def crash_signature(self):
        """(file:function of the innermost frame inside the repository, exception type) from the child's traceback"""
        if not self.stderr:
            return None
        txt = self.stderr.decode("utf8", "replace")
        frames = re.findall(r'File "([^"]+)", line \d+, in (\S+)', txt)
        inner = None
        for f, fn in frames:
            if "/tlexport/" in f:
                inner = f"{f.split('/tlexport/', 1)[1]}:{fn}"
        m = re.findall(r"^([A-Za-z_][\w.]*(?:Error|Exception|Exit|Interrupt|NeedData|UnpackError)[\w.]*)\b", txt, re.M)
        return (inner, m[-1] if m else None)


def scratch_dir(prefix="tle"):
    return tempfile.mkdtemp(prefix=prefix, dir=SHM)


def run_tlexport(files, argv, child_setup=None, cpu=60, wall=900, cwd=None, outnames=("out.pcapng",), keep_dir=None, earlier_may_fail=False):
    """files: name -> bytes, written into a private scratch dir; argv: list of arguments, or a list of such lists
    (run() is then called once per list in the *same* child, for in-process repetition).  '{dir}' in an argument is
    replaced by the scratch directory.
    status: 'ok' | 'exit:<n>' (SystemExit) | 'crash' (uncaught exception, traceback in stderr) |
            'cpu' (CPU budget exhausted: non-termination) | 'timeout' (wall clock only: inconclusive) | 'signal:<n>'"""
    t0 = time.time()
    if tmain is None:
        return Result("crash", [None] * len(outnames), b"", ("importing tlexport.main failed:\n" + IMPORT_ERROR).encode(), 0.0, b"")
    if _CPU_HITS[0] >= 3:
        cpu = min(cpu, 5)       # this worker has already seen three runs exhaust their CPU budget: the verdict stands, do not spend a minute on every further run
    d = scratch_dir()
    try:
        for n, b in files.items():
            if "/" in n:
                os.makedirs(os.path.dirname(os.path.join(d, n)), exist_ok=True)
            with open(os.path.join(d, n), "wb") as f:
                f.write(b)
        runs = argv if argv and isinstance(argv[0], (list, tuple)) else [argv]
        runs = [[a.replace("{dir}", d) for a in r] for r in runs]
        pid = os.fork()
        if pid == 0:
            code = 98
            try:
                os.chdir(cwd or d)
                so = os.open(os.path.join(d, "_stdout"), os.O_WRONLY | os.O_CREAT | os.O_TRUNC)
                se = os.open(os.path.join(d, "_stderr"), os.O_WRONLY | os.O_CREAT | os.O_TRUNC)
                os.dup2(so, 1)
                os.dup2(se, 2)
                sys.stdout = os.fdopen(1, "w", closefd=False)
                sys.stderr = os.fdopen(2, "w", closefd=False)
                resource.setrlimit(resource.RLIMIT_CPU, (cpu, cpu + 5))
                faulthandler.enable(file=sys.stderr)
                faulthandler.register(signal.SIGXCPU, file=sys.stderr, chain=True)
                os.environ["TLEXPORT_VERIF"] = "1"
                os.environ["TLEXPORT_VERIF_EVENTS"] = os.path.join(d, "_events")
                if child_setup:
                    child_setup(d)
                cbase = cover.child_base()
                code = 0
                try:
                    for ri, r in enumerate(runs):
                        r = list(r)
                        # directives in front of a run's arguments (what a user's shell does between two commands): "@cd:<dir>" changes the working directory,
                        # "@cp:<src>:<dst>" copies a file (a key log or capture rewritten under the same path)
                        while r and r[0].startswith("@"):
                            op = r.pop(0)
                            if op.startswith("@cd:"):
                                os.chdir(op[4:])
                            elif op.startswith("@cp:"):
                                src, dst = op[4:].split(":")
                                with open(src, "rb") as fsrc, open(dst, "wb") as fdst:
                                    fdst.write(fsrc.read())
                        sys.argv = ["tlexport"] + r
                        if earlier_may_fail and ri < len(runs) - 1:
                            try:                    # an earlier run of the same process that ends in an exception or exit(): the later run must not notice
                                tmain.run()
                            except BaseException as e0:
                                sys.stderr.write(f"[earlier run {ri} ended with {type(e0).__name__}: {e0}]\n")
                        else:
                            tmain.run()
                except SystemExit as e:
                    c = 3 if e.code is None else (e.code if isinstance(e.code, int) else 4)
                    code = 100 + (c & 0x3F)
                except BaseException:
                    traceback.print_exc()
                    code = 99
                for fn in CHILD_AT_EXIT:
                    try:
                        fn()
                    except Exception:
                        pass
                cover.child_dump(cbase, os.path.join(d, "_reach"))
                sys.stdout.flush()
                sys.stderr.flush()
            finally:
                os._exit(code)
        deadline = t0 + wall
        status = None
        delay = 0.001
        while True:
            r, st = os.waitpid(pid, os.WNOHANG)
            if r:
                if os.WIFSIGNALED(st):
                    sig = os.WTERMSIG(st)
                    status = "cpu" if sig in (signal.SIGXCPU, signal.SIGKILL) else f"signal:{sig}"
                else:
                    c = os.WEXITSTATUS(st)
                    status = "ok" if c == 0 else ("crash" if c in (98, 99) else f"exit:{c - 100}")
                break
            if time.time() > deadline:
                os.kill(pid, signal.SIGKILL)
                os.waitpid(pid, 0)
                status = "timeout"
                break
            time.sleep(delay)
            delay = min(delay * 1.5, 0.02)

        def rd(n):
            try:
                with open(os.path.join(d, n), "rb") as f:
                    return f.read()
            except (FileNotFoundError, IsADirectoryError):
                return None
        if status == "cpu":
            _CPU_HITS[0] += 1
        cover.absorb(os.path.join(d, "_reach"))
        res = Result(status, [rd(n) for n in outnames], rd("_stdout"), rd("_stderr"), time.time() - t0, rd("_events"))
        if keep_dir:
            shutil.copytree(d, keep_dir, dirs_exist_ok=True)
        return res
    finally:
        shutil.rmtree(d, ignore_errors=True)


def std_argv(infile="in.pcapng", keylog="keys.log", out="out.pcapng", extra=()):
    a = ["-i", "{dir}/" + infile, "-o", "{dir}/" + out]
    if keylog is not None:
        a += ["-s", "{dir}/" + keylog]
    return a + list(extra)


def run_subprocess(files, argv, env=None, cwd=None, timeout=300, outname="out.pcapng"):
    """process-boundary mode: a fresh interpreter (`python -m tlexport.main`) with its own hash seed, environment and working directory"""
    import subprocess
    d = scratch_dir("tlesub")
    try:
        for n, b in files.items():
            if "/" in n:
                os.makedirs(os.path.dirname(os.path.join(d, n)), exist_ok=True)
            with open(os.path.join(d, n), "wb") as f:
                f.write(b)
        args = [a.replace("{dir}", d) for a in argv]
        e = {"PATH": os.environ.get("PATH", "/usr/bin:/bin"), "PYTHONPATH": REPO, "PYTHONDONTWRITEBYTECODE": "1"}
        e.update(env or {})
        t0 = time.time()
        try:
            p = subprocess.run([sys.executable, "-m", "tlexport.main"] + args, cwd=cwd or d, env=e, capture_output=True, timeout=timeout)
            status = "ok" if p.returncode == 0 else f"exit:{p.returncode}"
            so, se = p.stdout, p.stderr
        except subprocess.TimeoutExpired as ex:
            status, so, se = "timeout", ex.stdout or b"", ex.stderr or b""
        out = None
        try:
            with open(os.path.join(d, outname), "rb") as f:
                out = f.read()
        except FileNotFoundError:
            pass
        return Result(status, [out], so, se, time.time() - t0, None)
    finally:
        shutil.rmtree(d, ignore_errors=True)
