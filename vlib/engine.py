"""Case engine: static partition of a case list over forked workers, three-valued verdicts, evidence, known findings.

A check supplies
  cases   : list of small JSON-able dicts (deterministic functions of (VERIF_SEED, index)); each has a unique "id"
  evalfn  : case -> result dict
              v          'held' | 'violated' | 'inconclusive' | 'known'
              cls        list/tuple describing the case's class (for distinct counting and the coverage tables)
              nontrivial bool (rule stated by the check)
              msg        str (why violated / inconclusive)
              finding    key of the listed open finding this failure matches (v == 'known')
              mon        {monitor name: evaluation count}
              files      {name: bytes}  inputs/outputs worth keeping when violated  (never serialised unless violated)
              sample     JSON-able description of the case for the evidence file
The workers are forked from the parent *after* it has imported everything, and each forks one grandchild per end-to-end run.
"""
import collections
import hashlib
import json
import os
import shutil
import signal
import sys
import time
import traceback

from . import cover, runner  # noqa: F401  (imports the repository once, before any fork)

HERE = os.path.dirname(os.path.dirname(os.path.abspath(__file__)))
NWORKERS = int(os.environ.get("VERIF_WORKERS", "16"))
KNOWN_FILE = os.path.join(HERE, "KNOWN_FINDINGS.txt")
# development runs against scratch mutants must not overwrite the committed evidence / replay directories
_ALT = "/dev/shm/tle_mutrun" if os.environ.get("VERIF_NOEVIDENCE") else None
EVID_DIR = os.path.join(_ALT or HERE, "evidence")
REPLAY_DIR = os.path.join(_ALT or HERE, "replay")


def seed_from_env():
    try:
        return int(os.environ.get("VERIF_SEED", "0"))
    except ValueError:
        return int.from_bytes(hashlib.sha256(os.environ["VERIF_SEED"].encode()).digest()[:4], "big")


def subseed(*parts):
    """deterministic 64-bit seed from arbitrary parts (never uses hash())"""
    h = hashlib.sha256(repr(parts).encode()).digest()
    return int.from_bytes(h[:8], "big")


def load_known(prop):
    """open findings for a property: {key: description}; 'fixed:' lines suppress nothing and are ignored here"""
    out = {}
    if not os.path.exists(KNOWN_FILE):
        return out
    for line in open(KNOWN_FILE):
        line = line.strip()
        if not line.startswith("open:"):
            continue
        head, _, desc = line[5:].partition("::")
        kv = dict(x.split("=", 1) for x in head.split() if "=" in x)
        if kv.get("property") == prop and "key" in kv:
            out[kv["key"]] = desc.strip()
    return out


def _jsonable(x):
    if isinstance(x, (bytes, bytearray)):
        return x.hex() if len(x) <= 64 else x[:64].hex() + f"...({len(x)}B)"
    if isinstance(x, dict):
        return {str(k): _jsonable(v) for k, v in x.items()}
    if isinstance(x, (list, tuple, set, frozenset)):
        return [_jsonable(v) for v in x]
    if isinstance(x, (int, float, str, bool)) or x is None:
        return x
    return repr(x)


def _write_replay(prop, case, res):
    d = os.path.join(REPLAY_DIR, prop, str(case["id"]).replace("/", "_"))
    shutil.rmtree(d, ignore_errors=True)
    os.makedirs(d, exist_ok=True)
    with open(os.path.join(d, "case.json"), "w") as f:
        json.dump({"property": prop, "case": case, "msg": res.get("msg"), "sample": _jsonable(res.get("sample"))}, f, indent=1)
    for n, b in (res.get("files") or {}).items():
        if b is None:
            continue
        with open(os.path.join(d, n.replace("/", "_")), "wb") as f:
            f.write(b if isinstance(b, (bytes, bytearray)) else str(b).encode())
    return d


class CaseCpuBound(BaseException):
    """raised inside a worker by the CPU-time watchdog (BaseException: the code under test has `except Exception` clauses)"""


TICK_S = 10.0               # CPU seconds of the worker itself (children have their own RLIMIT_CPU) between two looks at the stack
CALL_TICKS = 3              # one single call into the repository's code on the stack for this many consecutive looks: it does not terminate
CASE_CPU_S = 3600.0         # a case whose own evaluation burns this much CPU is given up as inconclusive (harness cost, not a verdict)
_wd = {"frame": None, "ticks": 0, "cpu": 0.0}


def _watchdog(sig, frame):
    """functions called in-process (checksum, packet-number, frame-parser, suite-table checks) have no process boundary that could bound them: a loop that
    never ends inside the repository's code must become a verdict with a stack, not a check that hangs"""
    _wd["cpu"] += TICK_S
    entry = None
    f = frame
    while f is not None:
        if f.f_code.co_filename.startswith(runner.REPO + os.sep):
            entry = f                   # outermost frame of the repository's code = the call the harness made
        f = f.f_back
    if entry is not None and entry is _wd["frame"]:
        _wd["ticks"] += 1
    else:
        _wd["frame"], _wd["ticks"] = entry, 1 if entry is not None else 0
    if entry is not None and _wd["ticks"] >= CALL_TICKS:
        inner = "".join(traceback.format_stack(frame)[-6:])
        raise CaseCpuBound(f"TLEXPORT: a single call of {entry.f_code.co_name} ({os.path.basename(entry.f_code.co_filename)}) has been running for "
                           f"{_wd['ticks'] * TICK_S:.0f} s of CPU time: non-termination; stack:\n{inner}")
    if _wd["cpu"] >= CASE_CPU_S:
        raise CaseCpuBound(f"HARNESS: the evaluation of this case used {_wd['cpu']:.0f} s of CPU time in the worker itself")


def _bounded(evalfn, case):
    _wd.update(frame=None, ticks=0, cpu=0.0)
    signal.signal(signal.SIGPROF, _watchdog)
    signal.setitimer(signal.ITIMER_PROF, TICK_S, TICK_S)
    try:
        return evalfn(case)
    finally:
        signal.setitimer(signal.ITIMER_PROF, 0, 0)
        _wd["frame"] = None


def _take(counter, lockpath, total):
    """next unclaimed case index (cases are handed out one by one: a static partition leaves most workers idle when the heavy cases recur with a period that
    divides the number of workers); verdicts do not depend on who evaluates a case - every case is a pure function of (seed, id)"""
    import fcntl
    with open(lockpath, "a") as lf:
        fcntl.flock(lf, fcntl.LOCK_EX)
        i = int.from_bytes(counter[:8], "little")
        if i < total:
            counter[:8] = (i + 1).to_bytes(8, "little")
        return i if i < total else None


def _worker(prop, w, n, cases, evalfn, outpath, budget_s, counter=None, lockpath=None):
    t0 = time.time()
    kept = 0
    hung = None
    with open(outpath, "w") as out:
        for i in (iter(lambda: _take(counter, lockpath, len(cases)), None) if counter is not None else range(w, len(cases), n)):
            case = cases[i]
            if budget_s and time.time() - t0 > budget_s:
                out.write(json.dumps({"i": i, "id": case["id"], "v": "skipped"}) + "\n")
                continue
            try:
                res = _bounded(evalfn, case)
            except CaseCpuBound as e:
                msg = str(e)
                if msg.startswith("TLEXPORT"):
                    hung = msg          # the remaining cases of this worker would hang the same way: they are skipped, the violation is reported
                    res = {"v": "violated", "msg": msg[10:], "cls": ["non-termination"], "sample": case}
                else:
                    res = {"v": "inconclusive", "msg": msg[9:], "cls": ["harness-cpu"], "nontrivial": False}
            except Exception:
                res = {"v": "inconclusive", "msg": "harness exception: " + traceback.format_exc()[-1500:], "cls": ["harness-error"], "harness_error": True}
            rec = {"i": i, "id": case["id"], "v": res.get("v", "inconclusive"), "cls": _jsonable(res.get("cls", [])),
                   "nontrivial": bool(res.get("nontrivial", res.get("v") == "held")), "msg": (res.get("msg") or "")[-2000:] if res.get("harness_error") else (res.get("msg") or "")[:2000],
                   "finding": res.get("finding"), "mon": res.get("mon") or {}, "tags": _jsonable(res.get("tags") or []),
                   "harness_error": bool(res.get("harness_error")), "units": int(res.get("units", 1)),
                   "classes": _jsonable(res.get("classes")) if res.get("classes") is not None else None}
            if rec["v"] == "violated" and kept < 8:
                rec["replay"] = _write_replay(prop, case, res)
                kept += 1
            if i < 3 * n or rec["v"] != "held":
                rec["sample"] = _jsonable(res.get("sample") or case)
            out.write(json.dumps(rec) + "\n")
            out.flush()
            if hung and counter is not None:
                break           # this worker stops taking cases (the call that does not terminate would most likely hang it again); the others carry on
    cover.flush()
    os._exit(0)


def run_cases(prop, cases, evalfn, budget_s=None, nworkers=None):
    """-> (results sorted by case index, dead_workers)"""
    n = min(nworkers or NWORKERS, max(1, len(cases)))
    sd = runner.scratch_dir("tleres")
    pids = {}
    import mmap
    counter = mmap.mmap(-1, 8)        # anonymous shared mapping: the next unclaimed case index, inherited by the forked workers
    lockpath = os.path.join(sd, "lock")
    try:
        for w in range(n):
            path = os.path.join(sd, f"w{w}.jsonl")
            pid = os.fork()
            if pid == 0:
                try:
                    _worker(prop, w, n, cases, evalfn, path, budget_s, counter, lockpath)
                finally:
                    os._exit(97)
            pids[pid] = w
        dead = []
        while pids:
            pid, st = os.wait()
            w = pids.pop(pid, None)
            if w is None:
                continue
            if not (os.WIFEXITED(st) and os.WEXITSTATUS(st) == 0):
                dead.append(w)
        results = []
        for w in range(n):
            p = os.path.join(sd, f"w{w}.jsonl")
            if os.path.exists(p):
                for line in open(p):
                    try:
                        results.append(json.loads(line))
                    except ValueError:
                        pass
        results.sort(key=lambda r: r["i"])
        return results, dead
    finally:
        shutil.rmtree(sd, ignore_errors=True)


def finish(prop, tier, seed, level, results, dead, t0, rule, min_nontrivial=2, assumptions=(), extra=None, exhaustive=False,
           expected_cases=None):
    """aggregate, print verdict lines, write evidence, return exit code"""
    if os.environ.get("VERIF_DUMP"):
        with open(os.environ["VERIF_DUMP"], "w") as f:
            for r in results:
                f.write(json.dumps(r) + "\n")
    known = load_known(prop)
    viol, inconc, held, knownhits, skipped = [], [], [], collections.Counter(), 0
    for r in results:
        if r["v"] == "violated":
            viol.append(r)
        elif r["v"] == "known":
            if r.get("finding") in known:
                knownhits[r["finding"]] += 1
            else:
                r["msg"] = f"failure matches finding key {r.get('finding')!r} which is not listed as open: " + r.get("msg", "")
                viol.append(r)
        elif r["v"] == "held":
            held.append(r)
        elif r["v"] == "skipped":
            skipped += 1
        else:
            inconc.append(r)
    nontriv = [r for r in held if r["nontrivial"]]
    dset = set()
    for r in nontriv:
        if r.get("classes") is not None:
            dset.update(json.dumps(c) for c in r["classes"])
        else:
            dset.add(json.dumps(r["cls"]))
    distinct = len(dset)
    mon = collections.Counter()
    for r in results:
        for k, v in (r.get("mon") or {}).items():
            mon[k] = max(mon[k], v) if k.startswith("max_") else mon[k] + v
    tables = collections.Counter()
    for r in results:
        for t in r.get("tags") or []:
            tables[str(t)] += 1
    samples = [r.get("sample") for r in results if r.get("sample") is not None][:5]
    if not samples:
        samples = [{"note": "no case was evaluated"}]
    for k, c in sorted(knownhits.items()):
        print(f"KNOWN-FINDING: property={prop} {k} :: {known[k]} (reproduced by {c} case(s) this run)")
    for r in viol[:20]:
        rp = r.get("replay") or os.path.join(REPLAY_DIR, prop, "unsaved")
        print(f"VIOLATION property={prop} replay={rp}")
        print(f"  case {r['id']}: {r.get('msg', '')[:600]}")
    harness_errors = [r for r in inconc if r.get("harness_error")]
    missing = (expected_cases is not None and len(results) < expected_cases) or bool(dead)
    code = 0
    why = ""
    if viol:
        code = 1
    elif missing or harness_errors or distinct < min_nontrivial or skipped > len(results) // 2:
        code = 2
        why = (f"dead workers {dead}; " if dead else "") + (f"{len(harness_errors)} harness errors; " if harness_errors else "") + \
              (f"only {distinct} distinct non-trivial cases (< {min_nontrivial}); " if distinct < min_nontrivial else "") + \
              (f"{skipped} cases skipped by the time budget; " if skipped > len(results) // 2 else "")
    cov = {
        "evaluations": sum(r.get("units", 1) for r in results if r["v"] != "skipped"),
        "cases": len(results) - skipped,
        "distinct_nontrivial": distinct,
        "rule": rule,
        "samples": samples,
        "held": len(held), "nontrivial_held": len(nontriv), "inconclusive": len(inconc), "skipped_by_budget": skipped,
        "known_findings_reproduced": dict(knownhits),
        "known_findings_listed_but_not_observed": sorted(set(known) - set(knownhits)),
        "monitor_evaluations": dict(mon),
        "class_tables": dict(sorted(tables.items())),
        "inconclusive_reasons": collections.Counter(r.get("msg", "")[:80] for r in inconc).most_common(8),
        "exhaustive": bool(exhaustive),
    }
    if extra:
        cov.update(extra)
    ev = {"property_id": prop, "tier": tier, "seed": int(seed), "level": level, "coverage": cov,
          "assumptions": list(assumptions), "wall_s": round(time.time() - t0, 2), "violations": len(viol),
          "verdict": {0: "held on everything explored", 1: "violated", 2: "inconclusive: " + why}[code]}
    os.makedirs(EVID_DIR, exist_ok=True)
    tmp = os.path.join(EVID_DIR, f".{prop}.json.tmp")
    with open(tmp, "w") as f:
        json.dump(_jsonable(ev), f, indent=1)
    os.replace(tmp, os.path.join(EVID_DIR, f"{prop}.json"))
    print(f"[{prop}] tier={tier} seed={seed} evaluations={cov['evaluations']} distinct_nontrivial={distinct} held={len(held)} "
          f"known={sum(knownhits.values())} inconclusive={len(inconc)} violations={len(viol)} wall={ev['wall_s']}s -> "
          f"{ev['verdict']}")
    if inconc[:3]:
        for r in inconc[:3]:
            print(f"  inconclusive case {r['id']}: {r.get('msg', '')[:160]} ... {r.get('msg', '')[-500:]}")
    sys.stdout.flush()
    return code
