"""Independent cipher-suite registry and structural name parser.

REGISTRY   : code point -> IANA name, loaded from the frozen copy registry/iana_tls_cipher_suites.json
SUPPORTED  : the code points the pinned TLExport tree accepts (frozen in registry/supported_suites.json, never
             read from the repository at run time, so a deleted table row fails the matrix instead of shrinking it)
parse_name : derives the parameters from the *structure* of the name (split at _WITH_, tokenised), no substring search.
"""
import json
import os

_HERE = os.path.dirname(os.path.dirname(os.path.abspath(__file__)))

with open(os.path.join(_HERE, "registry", "iana_tls_cipher_suites.json")) as _f:
    REGISTRY = {int(k, 16): v for k, v in json.load(_f).items()}
with open(os.path.join(_HERE, "registry", "supported_suites.json")) as _f:
    SUPPORTED = sorted(int(k, 16) for k in json.load(_f))

_HASHES = {"SHA": "sha1", "SHA256": "sha256", "SHA384": "sha384", "MD5": "md5"}
_HLEN = {"sha1": 20, "sha256": 32, "sha384": 48, "md5": 16}


class NotDrivable(ValueError):
    """name uses a bulk cipher this harness does not implement (NULL, DES, RC2, ARIA, SEED, ...)"""


def parse_name(name):
    """-> dict(cipher, key_len, mode, aead, mac, mac_len, prf, tag_len, block, tls13)"""
    if not name.startswith("TLS_"):
        raise NotDrivable(name)
    if "_WITH_" in name:
        kx, rhs = name.split("_WITH_")
        tls13 = False
        if "EXPORT" in kx.split("_"):
            raise NotDrivable(name)
    else:
        rhs = name[len("TLS_"):]
        tls13 = True
    tok = rhs.split("_")
    p = {"tls13": tls13, "tag_len": None, "mac": None, "name": name}
    hs = tok.pop() if tok[-1] in _HASHES else None
    if tok[:2] == ["RC4", "128"] and len(tok) == 2:
        p.update(cipher="RC4", key_len=16, mode="STREAM", block=0)
    elif tok == ["3DES", "EDE", "CBC"]:
        p.update(cipher="3DES", key_len=24, mode="CBC", block=8)
    elif tok == ["IDEA", "CBC"]:
        p.update(cipher="IDEA", key_len=16, mode="CBC", block=8)
    elif tok[0] in ("AES", "CAMELLIA") and len(tok) >= 3 and tok[1] in ("128", "256"):
        p.update(cipher=tok[0], key_len=int(tok[1]) // 8, block=16)
        m = tok[2:]
        if m == ["CBC"]:
            p["mode"] = "CBC"
        elif m == ["GCM"]:
            p.update(mode="GCM", tag_len=16)
        elif m == ["CCM"]:
            p.update(mode="CCM", tag_len=16)
        elif m == ["CCM", "8"]:
            p.update(mode="CCM", tag_len=8)
        else:
            raise NotDrivable(name)
    elif tok == ["CHACHA20", "POLY1305"]:
        p.update(cipher="CHACHA20", key_len=32, mode="CHACHA", tag_len=16, block=0)
    else:
        raise NotDrivable(name)
    aead = p["mode"] in ("GCM", "CCM", "CHACHA")
    p["aead"] = aead
    if aead:
        p["prf"] = _HASHES[hs] if hs else "sha256"
        if p["prf"] not in ("sha256", "sha384"):
            raise NotDrivable(name)
        p["mac_len"] = 0
    else:
        if hs is None or tls13:
            raise NotDrivable(name)
        p["mac"] = _HASHES[hs]
        p["mac_len"] = _HLEN[p["mac"]]
        p["prf"] = "sha384" if hs == "SHA384" else "sha256"
    return p


def valid_versions(p):
    """protocol versions a suite with parameters p may be negotiated in (RFC 5246 App. A.5 / RFC 8446 B.4)"""
    if p["tls13"]:
        return [0x0304]
    if p["aead"] or p["mac"] in ("sha256", "sha384"):
        return [0x0303]
    return [0x0300, 0x0301, 0x0302, 0x0303]


def matrix():
    """[(version, code, name, params)] for every frozen supported suite x valid version"""
    out = []
    for code in SUPPORTED:
        name = REGISTRY[code]
        p = parse_name(name)
        for v in valid_versions(p):
            out.append((v, code, name, p))
    return out


VNAME = {0x0300: "SSL3.0", 0x0301: "TLS1.0", 0x0302: "TLS1.1", 0x0303: "TLS1.2", 0x0304: "TLS1.3"}


_BY_VERSION = None


def pick(rng, weights=None):
    """version-balanced draw from the frozen matrix: the version first (TLS 1.3 has 5 suites of 462 combinations - a uniform draw over
    the matrix would almost never produce it), then a suite valid for it -> (version, code, name, params)"""
    global _BY_VERSION
    if _BY_VERSION is None:
        _BY_VERSION = {}
        for row in matrix():
            _BY_VERSION.setdefault(row[0], []).append(row)
    w = weights or {0x0300: 1, 0x0301: 1.5, 0x0302: 1, 0x0303: 3, 0x0304: 2.5}
    vs = sorted(_BY_VERSION)
    v = rng.choices(vs, [w[x] for x in vs])[0]
    return rng.choice(_BY_VERSION[v])
