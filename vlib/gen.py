"""Shared scene generators and per-flow oracles used by the metamorphic / multi-connection checks."""
import random

from . import e2e, outparse, quicsynth, scene, suites, tcpcap, tlssynth


def random_tls_flow(rng, idx=0, ep=None, nmax=12, big=False, segkinds=("mss", "random", "whole", "records", "tail1"), version=None, code=None, sport=443, v6=None,
                    min_records=0, perturb=False, resume_of=None, duplex=False, repack=False, hrr=False, compress=False, tfo=None):
    """resume_of: an earlier TLS <= 1.2 flow whose session this one resumes (same version, suite and master secret, fresh randoms)"""
    mx = suites.matrix()
    if version is None:
        v, c, name, p = suites.pick(rng)
    else:
        v, c = version, code
    if resume_of is not None:
        v, c = resume_of.conn.spec.version, resume_of.conn.spec.suite
    spec, cl = tlssynth.random_spec(rng, v, c, nmax=nmax, big=big)
    if resume_of is not None:
        spec.resumed = True
        spec.master = resume_of.conn.master
        spec.etm = resume_of.conn.spec.etm
    spec.hrr = bool(hrr)
    spec.compress = bool(compress) and suites.parse_name(suites.REGISTRY[c])["mode"] != "STREAM"      # (RC4 + DEFLATE: TLExport exports the compressed bytes - outside every claimed domain, see DESIGN section 1)
    while len(spec.app) < min_records:
        spec.app.append((rng.choice("cs"), rng.randbytes(rng.randrange(1, 200))))
    conn = tlssynth.build_conn(spec, rng)
    ep = ep or tcpcap.random_ep(rng, v6=v6, sport=sport)
    segkind = rng.choice(list(segkinds))
    segs = tcpcap.segments(conn.events, ep, tcpcap.make_cutter(rng, segkind, conn.events))
    if tfo is None:
        tfo = rng.choice([False] * 10 + [True, "both"])
    if tfo:         # TCP Fast Open: the first ClientHello segment on the SYN
        segs, ok = tcpcap.add_tfo(segs, server=tfo == "both")
        segkind += "+tfo" if ok else ""
    if perturb:     # same byte streams, perturbed delivery: retransmitted duplicates and bounded reordering
        segs = tcpcap.displace(tcpcap.add_duplicates(segs, rng, rng.choice([0, 1, 3])), rng, rng.choice([1, 2, 4]), maxdist=rng.choice([1, 2, 3]))
        segkind += "+reordered"
    if repack:      # repacketized retransmissions: same sequence number, longer payload
        segs = tcpcap.add_repacketized(segs, rng, rng.choice([1, 2]))
        segkind += "+repack"
    if duplex:      # full-duplex application phase: the two directions' segments interleave
        segs = tcpcap.interleave_app(segs, conn.events, rng)
        segkind += "+duplex"
    fl = scene.tls_flow(conn, ep, segs, ethpad=(ep.cport + ep.cisn) % 5 == 0)      # a fifth of the flows: receiver-side capture with Ethernet padding
    fl.label = f"tls-{suites.VNAME[v]}-{c:04X}" + ("-resumes" if resume_of is not None else "") + ("-deflate" if spec.compress and v != 0x0304 else "")
    fl.segkind = segkind
    return fl


def random_quic_flow(rng, idx=0, ep=None, napp=None, sport=443, v6=None, avoid=(), ccid_len=None, path_swaps=None, bulk=None, c_scid=None):
    s = quicsynth.random_qspec(rng, napp=napp, avoid=avoid, bulk=bulk)
    if c_scid is not None:
        s.c_scid_value, s.c_scid_len = c_scid, len(c_scid)
        if not c_scid:
            s.client_new_cid_at = -1
    if path_swaps is not None:
        s.path_swaps = path_swaps
    if ccid_len is not None:
        s.c_scid_len = ccid_len
        if s.client_new_cid_at >= 0 and not ccid_len:
            s.client_new_cid_at = -1
    qc = quicsynth.build_qconn(s, rng)
    ep = ep or tcpcap.random_ep(rng, v6=v6, sport=sport)
    fl = scene.quic_flow(qc, ep)
    fl.label = f"quic-{s.suite:04X}"
    fl.segkind = "dgram"
    return fl


def flow_keys(fl, mapargs=None):
    ep = fl.ep
    sp = e2e.exported_port(ep.sport, mapargs)
    return (ep.cip, ep.cport, ep.sip, sp), (ep.sip, sp, ep.cip, ep.cport)


def flow_output(an, fl, mapargs=None):
    """what the output holds for one flow: TLS -> {'c': bytes, 's': bytes}; QUIC -> [(dir, payload)] in file order"""
    kc, ks = flow_keys(fl, mapargs)
    if fl.kind == "quic":
        return [("c" if key == kc else "s", payload) for proto, key, ts, payload in an.order if proto == 17 and key in (kc, ks)]
    return {"c": an.tcp.get(kc) or b"", "s": an.tcp.get(ks) or b""}


def flow_packets(an, fl, mapargs=None):
    """every output packet (ts, raw frame) that belongs to the flow's exported conversation, in file order"""
    kc, ks = flow_keys(fl, mapargs)
    proto = 17 if fl.kind == "quic" else 6
    return [(p.ts, p.raw) for p in an.pkts if p.proto == proto and (p.src, p.sport, p.dst, p.dport) in (kc, ks)]


def check_flow_exact(an, fl, mapargs=None):
    """-> list of messages; empty if the flow was exported exactly (C01 / C02 oracle)"""
    got = flow_output(an, fl, mapargs)
    if fl.kind == "quic":
        want = fl.conn.expect
        if got == want:
            return []
        n = min(len(got), len(want))
        i = next((k for k in range(n) if got[k] != want[k]), n)
        return [f"{fl.label} {fl.ep.describe()}: exported {len(got)} datagrams, sender's list has {len(want)}; first difference at index {i}"]
    msgs = []
    for d in "cs":
        m = e2e.compare_stream(f"{fl.label} {fl.ep.describe()} {'client' if d == 'c' else 'server'} stream", got[d], fl.conn.truth[d])
        if m:
            msgs.append(m)
    return msgs


def check_flow_prefix(an, fl, mapargs=None):
    """-> messages; empty if the flow contributed at most a prefix of its true plaintext per direction (C03 (c), C08)"""
    got = flow_output(an, fl, mapargs)
    msgs = []
    if fl.kind == "quic":
        for d in "cs":
            g = [p for dd, p in got if dd == d]
            w = [p for dd, p in fl.conn.expect if dd == d]
            if g != w[:len(g)]:
                i = next((k for k in range(min(len(g), len(w))) if g[k] != w[k]), min(len(g), len(w)))
                msgs.append(f"{fl.label} {d}: exported datagram sequence is not a prefix of the expected one (first difference at index {i} of {len(g)} exported / {len(w)} expected)")
        return msgs
    for d in "cs":
        if not fl.conn.truth[d].startswith(got[d]):
            i = next((k for k in range(min(len(got[d]), len(fl.conn.truth[d]))) if got[d][k] != fl.conn.truth[d][k]), min(len(got[d]), len(fl.conn.truth[d])))
            msgs.append(f"{fl.label} {'client' if d == 'c' else 'server'} stream: exported {len(got[d])} bytes that are not a prefix of the {len(fl.conn.truth[d])} bytes sent "
                        f"(first difference at offset {i}: exported {got[d][i:i + 8].hex()} sent {fl.conn.truth[d][i:i + 8].hex()})")
    return msgs


def distinct_eps(rng, n, pattern="random"):
    """n endpoint pairs following an addressing pattern that stresses the demultiplexer"""
    eps = []
    base = tcpcap.random_ep(rng, v6=False, odd=0.0)
    base6 = tcpcap.random_ep(rng, v6=True, odd=0.0)
    used = set()
    pool_h, pool_p = [], []
    for i in range(n):
        for _ in range(50):
            if pattern == "same-client-host":
                ep = tcpcap.Endpoints(base.cmac, base.smac, base.cip, base.sip, rng.randrange(1024, 65536), base.sport, rng.randrange(1 << 32), rng.randrange(1 << 32))
            elif pattern == "same-client-port":
                ep = tcpcap.Endpoints(base.cmac, rng.randbytes(6), base.cip, rng.randbytes(4), base.cport, base.sport, rng.randrange(1 << 32), rng.randrange(1 << 32))
            elif pattern == "same-ports-other-hosts":
                ep = tcpcap.Endpoints(rng.randbytes(6), rng.randbytes(6), rng.randbytes(4), rng.randbytes(4), base.cport, base.sport, rng.randrange(1 << 32), rng.randrange(1 << 32))
            elif pattern == "same-hosts-other-macs":
                # the same two addresses seen over changing links (gateway fail-over, a re-plugged or bonded interface, a capture point between two VLANs):
                # every connection has its own pair of MAC addresses
                ep = tcpcap.Endpoints(rng.randbytes(6), rng.randbytes(6), base.cip, base.sip, rng.randrange(1024, 65536), base.sport, rng.randrange(1 << 32), rng.randrange(1 << 32))
            elif pattern == "same-server":
                ep = tcpcap.Endpoints(rng.randbytes(6), base.smac, rng.randbytes(4), base.sip, rng.randrange(1024, 65536), base.sport, rng.randrange(1 << 32), rng.randrange(1 << 32))
            elif pattern == "mirrored":
                # X:p -> Y:q next to Y:p -> X:q: each host is the other's server, same port numbers
                if i % 2 == 0:
                    m = tcpcap.Endpoints(rng.randbytes(6), rng.randbytes(6), rng.randbytes(4), rng.randbytes(4), rng.randrange(1024, 65536), base.sport, rng.randrange(1 << 32), rng.randrange(1 << 32))
                    ep = m
                else:
                    m = eps[-1]
                    ep = tcpcap.Endpoints(m.smac, m.cmac, m.sip, m.cip, m.cport, m.sport, rng.randrange(1 << 32), rng.randrange(1 << 32))
            elif pattern == "small-pool":
                # every coordinate drawn from a tiny pool: tuples that agree in any subset of (hosts, ports) and in either role
                if not eps and not used:
                    pool_h[:] = [(rng.randbytes(6), rng.randbytes(4)) for _ in range(3)]
                    pool_p[:] = [rng.randrange(1024, 65536) for _ in range(max(2, n // 3))]
                (cm, ci), (sm, si) = rng.sample(pool_h, 2)
                ep = tcpcap.Endpoints(cm, sm, ci, si, rng.choice(pool_p), base.sport, rng.randrange(1 << 32), rng.randrange(1 << 32))
            elif pattern == "v4-v6-twins":
                b = base if i % 2 == 0 else base6
                ep = tcpcap.Endpoints(b.cmac, b.smac, b.cip, b.sip, 1024 + (base.cport + i // 2) % 60000, base.sport, rng.randrange(1 << 32), rng.randrange(1 << 32))
            else:
                ep = tcpcap.random_ep(rng, odd=0.1)
            key = (ep.cip, ep.cport, ep.sip, ep.sport)
            if key not in used and ep.cport not in (443, 44330) and ep.cip != ep.sip:
                used.add(key)
                eps.append(ep)
                break
        else:
            eps.append(tcpcap.random_ep(rng))
    return eps


EP_PATTERNS = ["random", "same-client-host", "same-client-port", "same-ports-other-hosts", "v4-v6-twins", "mirrored", "small-pool", "same-server", "same-hosts-other-macs"]
