#!/venv/bin/python
"""Prepare scratch worktrees for a round of independently seeded changes (development aid).

  mkround.py 16 C08 C14 ...   -> /tmp/seed_r16_C08/ (worktree of /repo HEAD) with seed/PROPERTY.txt

PROPERTY.txt holds only the text of the property (title, statement, quantifier) and the 'needs' lines of the changes already
seeded for it (so the agent picks another mechanism); nothing else from /verif goes to the agent.
"""
import glob
import json
import os
import subprocess
import sys

rnd = sys.argv[1]
props = {json.loads(l)["id"]: json.loads(l) for l in open("/verif/properties.jsonl")}
for pid in sys.argv[2:]:
    wt = f"/tmp/seed_r{rnd}_{pid}"
    subprocess.run(["git", "-C", "/repo", "worktree", "remove", "--force", wt], capture_output=True)
    r = subprocess.run(["git", "-C", "/repo", "worktree", "add", "--detach", wt, "HEAD"], capture_output=True, text=True)
    assert r.returncode == 0, r.stderr
    os.makedirs(wt + "/seed", exist_ok=True)
    p = props[pid]
    prev = []
    for m in sorted(glob.glob(f"/verif/seeded/{pid}-*/meta.json")):
        j = json.load(open(m))
        diff = open(os.path.dirname(m) + "/patch.diff").read()
        files = sorted({l[6:].strip() for l in diff.splitlines() if l.startswith("+++ b/")})
        prev.append(f"- [{', '.join(files)}] needs: {j.get('needs', '')}")
    with open(wt + "/seed/PROPERTY.txt", "w") as f:
        f.write(f"{pid}: {p['title']}\n\n{p['statement']}\n\nQuantified over: {p['quantifier']['text']}\n\n"
                f"Changes already made by others for this property (pick a DIFFERENT mechanism, code location and kind of input):\n" + "\n".join(prev) + "\n")
    print(wt)
