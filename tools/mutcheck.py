#!/venv/bin/python
"""Development helper: apply one textual edit (or a patch file) to a scratch worktree of /repo and run checks against it with TLE_REPO.

  mutcheck.py --file tlexport/x.py --old 'a' --new 'b' C01 C05
  mutcheck.py --patch /verif/seeded/C05-1/patch.diff C05
The scratch worktree lives under /tmp/tle_mut and is removed afterwards. /repo itself is never touched.
"""
import argparse
import os
import subprocess
import sys

WT = "/tmp/tle_mut"


def sh(*a, **k):
    return subprocess.run(a, capture_output=True, text=True, **k)


def main():
    ap = argparse.ArgumentParser()
    ap.add_argument("--file")
    ap.add_argument("--old")
    ap.add_argument("--new")
    ap.add_argument("--patch")
    ap.add_argument("--tier", default="quick")
    ap.add_argument("--tests", action="store_true", help="also run the repository's own suite on the mutant")
    ap.add_argument("checks", nargs="+")
    a = ap.parse_args()
    sh("git", "-C", "/repo", "worktree", "remove", "--force", WT)
    r = sh("git", "-C", "/repo", "worktree", "add", "--detach", WT, "HEAD")
    if r.returncode:
        print(r.stderr)
        return 2
    try:
        if a.patch:
            r = sh("git", "-C", WT, "apply", a.patch)
            if r.returncode:
                print("patch does not apply:", r.stderr)
                return 2
        else:
            p = os.path.join(WT, a.file)
            s = open(p).read()
            n = s.count(a.old)
            if n != 1:
                print(f"'old' occurs {n} times in {a.file}; need exactly 1")
                return 2
            open(p, "w").write(s.replace(a.old, a.new))
        if a.tests:
            r = sh("/venv/bin/python", "-m", "pytest", "-q", "-p", "no:cacheprovider", "--timeout=900", cwd=WT, env=dict(os.environ, PYTHONDONTWRITEBYTECODE="1"))
            print("repo tests on mutant:", r.stdout.strip().splitlines()[-1] if r.stdout.strip() else r.stderr[-300:])
        rc = 0
        for c in a.checks:
            r = sh("/venv/bin/python", "/verif/check.py", c, "--tier", a.tier, cwd="/verif", env=dict(os.environ, TLE_REPO=WT, VERIF_NOEVIDENCE="1"))
            lines = r.stdout.splitlines()
            v = [l for l in lines if l.startswith("VIOLATION")]
            summ = [l for l in lines if l.startswith("[" + c.upper())]
            first = lines[lines.index(v[0]) + 1][:300] if v else ""
            print(f"{c}: exit={r.returncode} {'CAUGHT' if r.returncode == 1 else 'MISSED' if r.returncode == 0 else 'INCONCLUSIVE'} violations={len(v)} {first}")
            if summ:
                print("   ", summ[0][:240])
            if r.returncode not in (0, 1):
                print(r.stdout[-600:], r.stderr[-600:])
            rc |= r.returncode != 1
        return rc
    finally:
        sh("git", "-C", "/repo", "worktree", "remove", "--force", WT)


if __name__ == "__main__":
    sys.exit(main())
