#!/venv/bin/python
"""Development helper: run a TLExport tree (TLE_REPO, default /repo) on the real captures shipped with the repository and print a
per-capture summary of what was exported (used to compare trees before/after a repository fix: fixes must never lose data here)."""
import glob
import hashlib
import os
import sys

sys.path.insert(0, os.path.dirname(os.path.dirname(os.path.abspath(__file__))))
from vlib import outparse, runner  # noqa: E402

ROOT = "/repo"


def corpus():
    out = []
    for f in sorted(glob.glob(ROOT + "/test/testfiles/*.pcapng")) + sorted(glob.glob(ROOT + "/test/incomplete_pcaps/*")):
        out.append((f, ROOT + "/test/keylog.log"))
    q = ROOT + "/tlexport/pcaps_und_keylogs/quic_pcaps/"
    for f in ("aes_ccm_128", "aes_gcm_128", "aes_gcm_256", "chacha_20", "all_ciphersuites"):
        out.append((q + f + ".pcapng", q + "all_ciphersuites.log"))
    out.append((q + "keyphase_update.pcapng", q + "keyphase_update.log"))
    out.append((q + "only_quic.pcapng", q + "hopefully_cid_change.log"))
    return out


def main():
    for cap, keys in corpus():
        files = {"in.pcapng": open(cap, "rb").read(), "keys.log": open(keys, "rb").read()}
        res = runner.run_tlexport(files, ["-i", "{dir}/in.pcapng", "-o", "{dir}/out.pcapng", "-s", "{dir}/keys.log"] + sys.argv[1:], cpu=300)
        an = outparse.Analysis(res.out)
        tcp = {f"{k[1]}>{k[3]}": (len(v), hashlib.sha1(v).hexdigest()[:8]) for k, v in an.tcp.items() if v}
        udp = {f"{k[1]}>{k[3]}": (len(v), sum(len(p) for _, p in v), hashlib.sha1(b"|".join(p for _, p in v)).hexdigest()[:8]) for k, v in an.udp.items()}
        print(os.path.basename(cap), res.status, "frames", an.nframes, "errors", len(an.errors), an.errors[:1], "tcp", tcp, "udp", udp)


if __name__ == "__main__":
    main()
