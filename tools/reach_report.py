#!/venv/bin/python
"""Development aid: run the quick tier of every check with VERIF_COVER and report which statements of tlexport/ no workload reached.

Unreached code is where a property is decided on nothing; each block is either outside every property's domain (say so in DESIGN.md) or a workload gap.
  reach_report.py [--checks C01 C02 ...] [--keep]
"""
import argparse
import glob
import os
import shutil
import subprocess
import sys

REPO = os.environ.get("TLE_REPO", "/repo")
DIR = "/dev/shm/tle_reach"


def executable_lines(path):
    src = open(path).read()
    code = compile(src, path, "exec")
    lines = set()
    stack = [code]
    while stack:
        c = stack.pop()
        for _, _, ln in c.co_lines():
            if ln:
                lines.add(ln)
        stack.extend(k for k in c.co_consts if hasattr(k, "co_lines"))
    return lines, src.splitlines()


def main():
    ap = argparse.ArgumentParser()
    ap.add_argument("--checks", nargs="*", default=[f"C{i:02d}" for i in range(1, 19)])
    ap.add_argument("--keep", action="store_true")
    a = ap.parse_args()
    if not a.keep:
        shutil.rmtree(DIR, ignore_errors=True)
        for c in a.checks:
            r = subprocess.run(["/venv/bin/python", "/verif/check.py", c, "--tier", "quick"], cwd="/verif", capture_output=True, text=True,
                               env=dict(os.environ, VERIF_COVER=DIR, VERIF_NOEVIDENCE="1"))
            print(c, "exit", r.returncode, file=sys.stderr)
    seen = set()
    for f in glob.glob(DIR + "/*.txt"):
        for l in open(f):
            fn, ln = l.rsplit(":", 1)
            seen.add((fn, int(ln)))
    tot = hit = 0
    for path in sorted(glob.glob(REPO + "/tlexport/**/*.py", recursive=True)):
        rel = path[len(REPO) + len("/tlexport/"):]
        ex, src = executable_lines(path)
        miss = sorted(l for l in ex if (rel, l) not in seen)
        tot += len(ex)
        hit += len(ex) - len(miss)
        print(f"== {rel}: {len(ex) - len(miss)}/{len(ex)} statements reached")
        for l in miss:
            t = src[l - 1].strip()
            if t.startswith(("logging.", "print(")) or t in ("else:", "pass"):
                continue
            print(f"   {l:5d}  {t[:150]}")
    print(f"TOTAL {hit}/{tot}")


if __name__ == "__main__":
    main()
