#!/venv/bin/python
"""Development helper: classic mutation analysis of tlexport/ against the quick checks, to find workload/oracle gaps systematically.

For every sampled mutant (one AST-level edit: comparison/boolean/arithmetic operator swapped, small integer constant +-1, True<->False, a simple statement
deleted) the mutated file is written into a scratch worktree of /repo under /tmp, the repository's own 60 tests are run (mutants they kill are uninteresting),
and then the checks mapped to that file are run with TLE_REPO until one reports a VIOLATION (killed).  Survivors are written to the report: each is either an
equivalent mutant or a gap to close.  /repo is never touched.

  mutation_sweep.py --per-file 25 --seed 1 --out /tmp/mut_report.jsonl [--files tlexport/decryptor.py ...]
"""
import argparse
import ast
import copy
import json
import os
import random
import subprocess
import sys
import time

WT = "/tmp/tle_mutsweep"
MAP = {
    "tlexport/decryptor.py": ["C01"],
    "tlexport/key_derivator.py": ["C15", "C01"],
    "tlexport/session.py": ["C01", "C05", "C07", "C13", "C03"],
    "tlexport/output_builder.py": ["C06", "C07", "C10"],
    "tlexport/checksums.py": ["C11"],
    "tlexport/cipher_suite_parser.py": ["C14", "C01"],
    "tlexport/keylog_reader.py": ["C09", "C01"],
    "tlexport/dpkt_dsb.py": ["C12", "C09"],
    "tlexport/main.py": ["C10", "C02", "C09", "C04", "C11", "C18"],
    "tlexport/packet.py": ["C01", "C02", "C11"],
    "tlexport/quic/quic_session.py": ["C02", "C16", "C15", "C03", "C18"],
    "tlexport/quic/quic_dissector.py": ["C02", "C03"],
    "tlexport/quic/quic_frame.py": ["C17", "C02"],
    "tlexport/quic/quic_key_generation.py": ["C15", "C02"],
    "tlexport/quic/quic_output_builder.py": ["C02", "C13", "C08", "C10", "C07"],
    "tlexport/quic/quic_tls_parser.py": ["C02", "C04"],
    "tlexport/quic/quic_decryptor.py": ["C02"],
    "tlexport/quic/quic_decode.py": ["C17", "C02"],
}
CMP = {ast.Lt: ast.LtE, ast.LtE: ast.Lt, ast.Gt: ast.GtE, ast.GtE: ast.Gt, ast.Eq: ast.NotEq, ast.NotEq: ast.Eq}
BIN = {ast.Add: ast.Sub, ast.Sub: ast.Add, ast.Mult: ast.FloorDiv, ast.FloorDiv: ast.Mult, ast.BitAnd: ast.BitOr, ast.BitOr: ast.BitAnd,
       ast.LShift: ast.RShift, ast.RShift: ast.LShift}


def is_logging(node):
    """statements that only log/print are not mutated (observable behaviour is the output file and the exit status)"""
    if isinstance(node, ast.Expr) and isinstance(node.value, ast.Call):
        f = node.value.func
        if isinstance(f, ast.Attribute) and isinstance(f.value, ast.Name) and f.value.id == "logging":
            return True
        if isinstance(f, ast.Name) and f.id == "print":
            return True
    return False


def sites(tree):
    """-> list of (kind, path description, mutator(tree_copy_node)) ; nodes are addressed by their index in ast.walk order"""
    out = []
    logging_nodes = set()
    for n in ast.walk(tree):
        if is_logging(n):
            for m in ast.walk(n):
                logging_nodes.add(id(m))
    for idx, n in enumerate(ast.walk(tree)):
        if id(n) in logging_nodes:
            continue
        ln = getattr(n, "lineno", 0)
        if isinstance(n, ast.Compare):
            for k, op in enumerate(n.ops):
                if type(op) in CMP:
                    out.append(("cmp", idx, ln, k))
        elif isinstance(n, ast.BoolOp):
            out.append(("bool", idx, ln, 0))
        elif isinstance(n, ast.BinOp) and type(n.op) in BIN:
            out.append(("bin", idx, ln, 0))
        elif isinstance(n, ast.Constant) and isinstance(n.value, bool):
            out.append(("flag", idx, ln, 0))
        elif isinstance(n, ast.Constant) and isinstance(n.value, int) and not isinstance(n.value, bool) and 0 <= n.value <= 64:
            out.append(("const+1", idx, ln, 0))
            if n.value > 0:
                out.append(("const-1", idx, ln, 0))
        elif isinstance(n, (ast.AugAssign,)) or (isinstance(n, ast.Assign) and len(n.targets) == 1 and isinstance(n.targets[0], ast.Attribute)):
            out.append(("delete", idx, ln, 0))
        elif isinstance(n, ast.Return) and n.value is None:
            out.append(("delete", idx, ln, 0))
        elif isinstance(n, ast.UnaryOp) and isinstance(n.op, ast.Not):
            out.append(("not", idx, ln, 0))
    return out


def apply(tree, site):
    kind, idx, ln, k = site
    t = copy.deepcopy(tree)
    nodes = list(ast.walk(t))
    n = nodes[idx]
    if kind == "cmp":
        n.ops[k] = CMP[type(n.ops[k])]()
    elif kind == "bool":
        n.op = ast.Or() if isinstance(n.op, ast.And) else ast.And()
    elif kind == "bin":
        n.op = BIN[type(n.op)]()
    elif kind == "flag":
        n.value = not n.value
    elif kind == "const+1":
        n.value += 1
    elif kind == "const-1":
        n.value -= 1
    elif kind == "not":
        # replace `not x` by `x`: find parent and substitute
        for p in nodes:
            for f, v in ast.iter_fields(p):
                if v is n:
                    setattr(p, f, n.operand)
                elif isinstance(v, list) and n in v:
                    v[v.index(n)] = n.operand
    elif kind == "delete":
        for p in nodes:
            for f, v in ast.iter_fields(p):
                if isinstance(v, list) and n in v:
                    v[v.index(n)] = ast.Pass()
    ast.fix_missing_locations(t)
    return ast.unparse(t)


def sh(*a, **k):
    return subprocess.run(a, capture_output=True, text=True, **k)


def main():
    ap = argparse.ArgumentParser()
    ap.add_argument("--per-file", type=int, default=20)
    ap.add_argument("--seed", type=int, default=1)
    ap.add_argument("--out", default="/tmp/mut_report.jsonl")
    ap.add_argument("--files", nargs="*")
    ap.add_argument("--max-checks", type=int, default=3)
    a = ap.parse_args()
    rng = random.Random(a.seed)
    sh("git", "-C", "/repo", "worktree", "remove", "--force", WT)
    r = sh("git", "-C", "/repo", "worktree", "add", "--detach", WT, "HEAD")
    assert r.returncode == 0, r.stderr
    env = dict(os.environ, PYTHONDONTWRITEBYTECODE="1")
    try:
        with open(a.out, "a") as rep:
            for f in a.files or list(MAP):
                src = open(os.path.join("/repo", f)).read()
                tree = ast.parse(src)
                ss = sites(tree)
                rng.shuffle(ss)
                done = 0
                for site in ss:
                    if done >= a.per_file:
                        break
                    try:
                        new = apply(tree, site)
                        compile(new, f, "exec")
                    except Exception:
                        continue
                    if new == ast.unparse(tree):
                        continue
                    open(os.path.join(WT, f), "w").write(new)
                    t0 = time.time()
                    t = sh("/venv/bin/python", "-m", "pytest", "-q", "-x", "-p", "no:cacheprovider", "--timeout=300", "--deselect", "test/test_all.py::TestProg::testrun", cwd=WT, env=env)
                    rec = {"file": f, "kind": site[0], "line": site[2], "orig": src.splitlines()[site[2] - 1].strip()[:160] if site[2] else ""}
                    if " passed" not in t.stdout or " failed" in t.stdout or " error" in t.stdout:
                        rec["result"] = "killed-by-repo-tests"
                    else:
                        done += 1
                        rec["result"] = "SURVIVED"
                        for c in MAP[f][:a.max_checks]:
                            rc = sh("/venv/bin/python", "/verif/check.py", c, "--tier", "quick", cwd="/verif", env=dict(env, TLE_REPO=WT, VERIF_NOEVIDENCE="1"))
                            if rc.returncode == 1:
                                rec["result"] = f"killed-by-{c}"
                                break
                            if rc.returncode not in (0, 1):
                                rec.setdefault("inconclusive", []).append(c)
                    rec["s"] = round(time.time() - t0, 1)
                    rep.write(json.dumps(rec) + "\n")
                    rep.flush()
                    print(json.dumps(rec)[:300], flush=True)
                    open(os.path.join(WT, f), "w").write(src)
    finally:
        sh("git", "-C", "/repo", "worktree", "remove", "--force", WT)


if __name__ == "__main__":
    sys.exit(main())
