#!/venv/bin/python
"""Validate a seeded change delivered by a sub-agent and run checks against it.

  seedcheck.py /tmp/seed_C05 C05-mask-dropped --prop C05 --needs "..." [--checks C05 C01] [--tier quick]

Copies patch.diff / demo.py / notes.md into /verif/seeded/<name>/, then in a scratch worktree of /repo HEAD (under /tmp, removed afterwards):
  1. the patch applies; 2. the repository's suite still gives 60 passed; 3. the demonstration fails with the change and passes without it;
  4. the named checks are run against the changed tree (TLE_REPO) - exit 1 = caught.
Writes /verif/seeded/<name>/meta.json.  /repo itself is never modified.
"""
import argparse
import json
import os
import shutil
import subprocess
import sys

WT = "/tmp/tle_seedcheck"


def sh(*a, **k):
    return subprocess.run(a, capture_output=True, text=True, **k)


def main():
    ap = argparse.ArgumentParser()
    ap.add_argument("src")
    ap.add_argument("name")
    ap.add_argument("--prop", required=True)
    ap.add_argument("--needs", default="")
    ap.add_argument("--checks", nargs="*")
    ap.add_argument("--tier", default="quick")
    a = ap.parse_args()
    dst = os.path.join("/verif/seeded", a.name)
    os.makedirs(dst, exist_ok=True)
    for f in ("patch.diff", "demo.py", "notes.md"):
        p = os.path.join(a.src, "seed", f)
        if os.path.exists(p):
            shutil.copy(p, os.path.join(dst, f))
    # helper files the demo may need
    for f in os.listdir(os.path.join(a.src, "seed")):
        if f not in ("patch.diff", "demo.py", "notes.md", "PROPERTY.txt") and os.path.isfile(os.path.join(a.src, "seed", f)) and os.path.getsize(os.path.join(a.src, "seed", f)) < 200000 and f.endswith(".py"):
            shutil.copy(os.path.join(a.src, "seed", f), os.path.join(dst, f))
    meta = {"property": a.prop, "needs": a.needs, "ran": {}}
    sh("git", "-C", "/repo", "worktree", "remove", "--force", WT)
    r = sh("git", "-C", "/repo", "worktree", "add", "--detach", WT, "HEAD")
    assert r.returncode == 0, r.stderr
    try:
        os.makedirs(os.path.join(WT, "seed"), exist_ok=True)
        for f in os.listdir(dst):
            if f.endswith(".py"):
                shutil.copy(os.path.join(dst, f), os.path.join(WT, "seed", f))
        demo = open(os.path.join(WT, "seed", "demo.py")).read().replace(a.src, WT)
        open(os.path.join(WT, "seed", "demo.py"), "w").write(demo)
        env = dict(os.environ, PYTHONPATH=WT, PYTHONDONTWRITEBYTECODE="1")
        r0 = sh("/venv/bin/python", "seed/demo.py", cwd=WT, env=env, timeout=900)
        meta["ran"]["demo_on_unchanged_tree"] = {"exit": r0.returncode, "tail": (r0.stdout + r0.stderr)[-300:]}
        r = sh("git", "-C", WT, "apply", os.path.join(dst, "patch.diff"))
        meta["ran"]["patch_applies_to_repo_head"] = r.returncode == 0
        if r.returncode:
            print("PATCH DOES NOT APPLY:", r.stderr[:500])
            meta["ran"]["apply_error"] = r.stderr[:500]
        else:
            t = sh("/venv/bin/python", "-m", "pytest", "-q", "-p", "no:cacheprovider", "--timeout=900", cwd=WT, env=env)
            meta["ran"]["repo_tests_with_change"] = t.stdout.strip().splitlines()[-1] if t.stdout.strip() else t.stderr[-200:]
            r1 = sh("/venv/bin/python", "seed/demo.py", cwd=WT, env=env, timeout=900)
            meta["ran"]["demo_with_change"] = {"exit": r1.returncode, "tail": (r1.stdout + r1.stderr)[-300:]}
            meta["confirmed"] = bool(r0.returncode == 0 and r1.returncode != 0 and "60 passed" in meta["ran"]["repo_tests_with_change"])
            for c in a.checks or [a.prop]:
                rc = sh("/venv/bin/python", "/verif/check.py", c, "--tier", a.tier, cwd="/verif", env=dict(os.environ, TLE_REPO=WT, VERIF_NOEVIDENCE="1"))
                lines = rc.stdout.splitlines()
                v = [l for l in lines if l.startswith("VIOLATION")]
                first = lines[lines.index(v[0]) + 1].strip()[:400] if v else ""
                summ = [l for l in lines if l.startswith("[" + c.upper())]
                meta["ran"][f"check_{c}_{a.tier}"] = {"exit": rc.returncode, "verdict": {0: "MISSED", 1: "CAUGHT"}.get(rc.returncode, "INCONCLUSIVE"), "violations_printed": len(v),
                                                      "first": first, "summary": summ[0][:300] if summ else rc.stderr[-300:]}
                print(c, meta["ran"][f"check_{c}_{a.tier}"]["verdict"], first[:200])
    finally:
        sh("git", "-C", "/repo", "worktree", "remove", "--force", WT)
    json.dump(meta, open(os.path.join(dst, "meta.json"), "w"), indent=1)
    print(json.dumps({k: v for k, v in meta["ran"].items() if not k.startswith("check_")}, indent=1)[:1200])
    print("confirmed:", meta.get("confirmed"))


if __name__ == "__main__":
    sys.exit(main())
