#!/bin/sh
# re-run seedcheck for an already stored seeded change: reseed.sh <orig-src-dir> <name> --prop Cxx --checks ...
src=$1; name=$2; shift 2
mkdir -p $src/seed && cp /verif/seeded/$name/*.py /verif/seeded/$name/patch.diff $src/seed/ 2>/dev/null
needs=$(/venv/bin/python -c "import json;print(json.load(open('/verif/seeded/$name/meta.json'))['needs'])")
/venv/bin/python /verif/tools/seedcheck.py $src $name --needs "$needs" "$@" 2>&1 | grep -v WARNING | grep -E "CAUGHT|MISSED|confirmed"
rm -rf $src
