#!/bin/sh
# runs every check's quick (or $1) tier against /repo and prints one summary line each
cd /verif
for c in C01 C02 C03 C04 C05 C06 C07 C08 C09 C10 C11 C12 C13 C14 C15 C16 C17 C18; do
  /venv/bin/python check.py $c --tier ${1:-quick} 2>&1 | grep -E "^\[C|^VIOLATION|^KNOWN|^  case|inconclusive case" | cut -c1-260
done
