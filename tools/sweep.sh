#!/bin/sh
# development aid: every quick tier for the given seeds, evidence untouched; prints one line per check and every violation / inconclusive case
cd "$(dirname "$0")/.."
for sd in "$@"; do
  for c in C01 C02 C03 C04 C05 C06 C07 C08 C09 C10 C11 C12 C13 C14 C15 C16 C17 C18; do
    VERIF_NOEVIDENCE=1 VERIF_SEED=$sd /venv/bin/python check.py $c --tier ${TIER:-quick} 2>&1 | grep -E "^\[C|VIOLATION|^  case|KNOWN|inconclusive case" | cut -c1-500
  done
done
