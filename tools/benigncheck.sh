#!/bin/sh
# runs every quick check against a (refactored) tree given as $1 and prints exit code + summary; evidence is not touched
cd /verif
for c in C01 C02 C03 C04 C05 C06 C07 C08 C09 C10 C11 C12 C13 C14 C15 C16 C17 C18; do
  TLE_REPO=$1 VERIF_NOEVIDENCE=1 /venv/bin/python check.py $c --tier quick > /tmp/bc_$$.log 2>&1; rc=$?
  echo "$c exit=$rc $(grep -E "^\[C" /tmp/bc_$$.log | cut -c1-200)"
  grep -E "^VIOLATION|^  case|inconclusive case" /tmp/bc_$$.log | head -4 | cut -c1-400
done
rm -f /tmp/bc_$$.log
