#!/venv/bin/python
"""Rewrites the table of DESIGN.md section 8 from seeded/*/meta.json (+ seeded/NOTES.json for the free-text column)."""
import glob
import json
import os

HERE = os.path.dirname(os.path.dirname(os.path.abspath(__file__)))
notes = json.load(open(os.path.join(HERE, "seeded", "NOTES.json")))
rows = []
for d in sorted(glob.glob(os.path.join(HERE, "seeded", "*", ""))):
    mp = os.path.join(d, "meta.json")
    if not os.path.exists(mp):
        continue
    m = json.load(open(mp))
    name = os.path.basename(d.rstrip("/"))
    checks = {k[6:]: v for k, v in m["ran"].items() if k.startswith("check_")}
    caught = [k.split("_")[0] for k, v in checks.items() if v["verdict"] == "CAUGHT"]
    missed = [k.split("_")[0] for k, v in checks.items() if v["verdict"] != "CAUGHT" and k.split("_")[0] == m["property"]]
    rows.append(f"| `{name}` | {m['property']} | {m['needs']} | {', '.join(caught) or '-'} | {notes.get(name, '') or ('missed by ' + ', '.join(missed) if missed else '')} |")
p = os.path.join(HERE, "DESIGN.md")
s = open(p).read()
marker = "| seeded change | property | needs | caught by (quick tier) | notes |\n|---------------|----------|-------|------------------------|-------|\n"
i = s.index(marker) + len(marker)
j = i
while j < len(s) and s[j] == "|":
    j = s.index("\n", j) + 1
s = s[:i] + "\n".join(rows) + "\n" + s[j:]
open(p, "w").write(s)
print(len(rows), "rows")
