#!/venv/bin/python
"""Regenerates MANIFEST.json from the table below (single source of truth) and validates it against the schema."""
import json
import os
import sys

HERE = os.path.dirname(os.path.dirname(os.path.abspath(__file__)))
PY = "/venv/bin/python"

TRUST = ("trusted base: CPython, the `cryptography` primitives (AES/3DES/Camellia/IDEA/RC4/ChaCha20/GCM/CCM), the harness's own "
         "reference senders/KDFs (hashlib/hmac only, checked against RFC vectors at setup) and its strict output parser")

# id -> (category, technique, level text, level note, design ref)
CHECKS = {
    "C01": ("exploration", "end-to-end runtime monitoring: reference TLS sender with ground truth -> real run() per case in a forked child -> strict output oracle (stream equality) + in-process monitors on the real Decryptor state",
            "Every frozen supported suite x every version it is valid for is driven end to end (462 combinations) plus hundreds/thousands of random "
            "(handshake shape x record history x segmentation x addressing x options) cases per run; the oracle compares the reassembled exported streams with "
            "the bytes the reference endpoints sent, while monitors check sequence-number and CBC-residue invariants on the real Decryptor. Held on the executions "
            "observed, not for all histories.",
            TRUST, "3/C01"),
    "C02": ("exploration", "end-to-end runtime monitoring: reference QUIC v1 endpoints with ground truth -> real run() per case -> output oracle (per-datagram sequence equality) + in-process monitors (packet numbers, parsed frames)",
            "A reference pair of QUIC endpoints (own packet protection, header protection, frame encoders) produces connections over the whole feature matrix of the property; "
            "the exported datagram sequence is compared with the sender's per-datagram STREAM concatenations, and monitors compare every reconstructed packet number "
            "and parsed frame list with what was sent. Held on the executions observed.",
            TRUST, "3/C02"),
    "C03": ("fault_enumeration", "fault injection into generated multi-flow scenes, each fault run compared with the fault-free run of the same scene by the output oracle (run completes; bystanders' packets identical; victim exports at most a prefix/subsequence of its ground truth)",
            "Per scene every fault of each kind is enumerated where the space is small (every packet deletion, every truncation point of the victim, every key-log "
            "subset for TLS 1.3/QUIC, the key log cut inside a line, eight unknown suite ids, all 256 values of the ciphertext byte that controls the padding length of a protected CBC record) "
            "every bit of the structural octets of the victim's hellos and of the invariant long-header octets of a QUIC victim's first datagrams, snap lengths incl. those inside the link-layer header, keep-alive probes and retransmissions that start inside an earlier segment) and sampled where it is not (bit flips, overwrites, foreign UDP payloads over all first bytes and lengths 1..8); the repository's real captures get faults at every payload-carrying packet. "
            "The real run() is executed per fault; crash signatures observed are listed in the evidence (none on the repaired tree).",
            TRUST + "; the scene's fault-free run must itself be exact", "3/C03"),
    "C04": ("exploration", "metamorphic runtime oracle over interleavings: per-connection exported packets of the merged capture == whole output of the capture filtered to that connection",
            "Scenes of 2..12 (soak: 60..200) TLS and QUIC connections under adversarial endpoint patterns are merged by order-preserving merges; the number of distinct "
            "merge orders actually explored is reported. Held on the interleavings explored, not for all.",
            TRUST, "3/C04"),
    "C05": ("exploration", "runtime monitor on the real Session.handle_tls_record (record list handed over == sender's record list, exactly once, in order) over exhaustively enumerated deliveries + end-to-end stream equality under perturbed delivery",
            "Real Session objects are fed real packets; for short streams every cut set, every single/double duplicate insertion and every bounded displacement is "
            "enumerated (tens of thousands of delivery histories per quick run), including sequence-number wrap at every offset; full end-to-end runs repeat the relation "
            "with real cipher suites, with 300-5000-segment deliveries, with TCP Fast Open (data on the SYN / SYN-ACK), with segments captured after the peer's reply to them, and with the re-cut TCP streams of the repository's real captures. Exhaustive only for the short streams enumerated.",
            TRUST, "3/C05"),
    "C06": ("exploration", "strict independent output oracle (own pcapng reader, frame parser with checksum verification, TCP reassembler) applied to outputs of a record-length x carrying-packet grid and of arbitrary/hostile inputs under random option sets",
            "Every output produced is read by an independent strict reader; the n x k grid checks the re-split rule (at most k segments, concatenation = record), the any-input "
            "part covers decryptable, partly and not decryptable captures, foreign traffic, damage (flips, snap lengths, runt frames, stale segments), empty and interface-less captures, captures of several interfaces incl. active non-Ethernet ones, legacy pcap and all option combinations.",
            "trusted: vlib.outparse (validated at setup on malformed and well-formed files)", "3/C06"),
    "C07": ("exploration", "offline provenance oracle over the output with the sender's ground truth: every exported packet is attributed to its record / datagram by stream offset and its addresses, orientation and microsecond timestamp are checked against the input packets that carried it",
            "Random MAC/IP/port values including degenerate ones, all segmentation classes plus duplicated/reordered deliveries, six timestamp styles stressing float rounding; "
            "15 000+ exported segments attributed per quick run; multi-connection scenes whose endpoints share hosts, ports or addresses (also the same two addresses under other MAC addresses per connection).",
            TRUST, "3/C07"),
    "C08": ("fault_enumeration", "every prefix of a capture is run through the real program and compared with the export of the full capture (prefix + monotonicity per conversation and direction), on generated scenes (single connections, mixed scenes, scenes following the demultiplexer's endpoint patterns with related initial sequence numbers, aborted connections) and on the repository's real OpenSSL captures",
            "All cut positions 0..N of each capture are enumerated (sampled to 120 positions only for captures longer than 120 packets in the quick tier).",
            TRUST, "3/C08"),
    "C09": ("exploration", "metamorphic runtime oracle: byte equality of the output file across ~25-60 deliveries of the same secret set (permutations, line ends, decorations, hex case, DSB placement/splitting, file+DSB, DSB only without -s from several working directories)",
            "Each scene's baseline delivery is compared byte for byte with every alternative delivery (generated scenes and the repository's real captures with their real key logs); permutations are exhaustive up to 5 lines.",
            TRUST, "3/C09"),
    "C10": ("exploration", "output oracle over option configurations: presence, exported server port and client port of every connection of a scene are checked against the documented -p/-m rules, together with exactness of the exported data",
            "Random scenes of 2-5 TLS/QUIC connections to ten different server ports under random -p lists and every -m form (absent, bare, pairs, pairs with commas); the same after an earlier run() of the same process with another -p list and mapping (the selection is that of the command, not of the process).",
            TRUST, "3/C10"),
    "C11": ("exploration", "runtime monitor comparing the real checksum routines with an independent RFC 1071 verifier on solved-for boundary packets + metamorphic end-to-end oracle (-c with corrupted packets == no -c with them removed)",
            "The real calculate_checksum_tcp/udp run on real Packet objects whose payloads are solved so that the unfolded sum hits every carry/fold boundary and "
            "the 0x0000/0xFFFF checksum values, a quarter of them inside VLAN tags, behind IPv4 options or IPv6 extension headers; the end-to-end relation of the property is checked byte for byte on TLS and QUIC scenes with arbitrary corrupted subsets.",
            TRUST, "3/C11"),
    "C15": ("exploration", "runtime monitors on key installation (Decryptor.__init__, QuicSession.set_initial_decryptor/set_tls_decryptors/check_key_epoch) inside real end-to-end runs, compared with hashlib/hmac reference key schedules",
            "Keys are observed where they are installed for a real connection, so the wiring session -> key_derivator -> decryptor is part of what is checked; every "
            "(suite, version) of the frozen matrix with random secrets, QUIC connections with Retry, 0-RTT and several key-update generations, and histories of 2-3 connections in one process (a session and its resumptions, unrelated connections with equal or different suites; one capture or one per run() call) in which every connection must find its own key set installed; captures whose ServerHello flight precedes the ClientHello, where whatever is installed must be the connection's RFC key set.",
            "trusted: vlib.refkdf, checked against RFC 5869/9001 vectors at setup", "3/C15"),
    "C12": ("exploration", "metamorphic runtime oracle: byte equality of the output across 31-47 capture containers of the same packet list (pcapng LE/BE x if_tsresol x if_tsoffset x interspersed unrelated blocks incl. secrets blocks of other protocols x captures of 2-3 interfaces with their own clocks, an idle non-Ethernet first interface, files of 2-3 sections x secrets in a DSB; legacy pcap LE/BE, us and ns), generated scenes and the repository's real captures",
            "Timestamps are drawn from the grid every container of the group can represent, so equality is demanded only where the inputs are equal.",
            TRUST, "3/C12"),
    "C13": ("exploration", "differential runtime oracle: each connection exported with and without -a; subsequence test on data packets, record-by-record parse of the -a stream against the sender's record list, packet-boundary test for the hello records; QUIC per-datagram comparison",
            "Everything -a adds must be material the reference sender knows it sent (a type 20/21/22 record verbatim or the plaintext of an encrypted handshake/alert record).",
            TRUST, "3/C13"),
    "C14": ("exploration", "runtime contract on the real split_cipher_suite and on the QUIC path's own resolver, evaluated exhaustively over all 65 536 code points; plus one real connection per (accepted suite, valid version) with a monitor on the record decryptor's constructor parameters and the export oracle",
            "Exhaustive enumeration of the whole input space of the real function under a post-condition derived from an independent frozen "
            "IANA registry copy and an independent structural name parser; the space is finite so this run is complete for the function, and the "
            "same contract stays installed while the end-to-end checks run. What the session makes of the resolved parameters is observed on 462 real TLS connections (bulk class, key / block / tag / MAC length the decryptor is constructed with; records of sub-block, one-block and multi-block length exported exactly) and on one QUIC connection per ordered (first offered, selected) suite pair.",
            "trusted: the frozen registry copy (cross-checked at setup against scapy's and dpkt's copies) and the harness's name parser", "3/C14"),
    "C16": ("exploration", "runtime monitor comparing the real get_full_packet_number with an integer transcription of RFC 9000 A.3 (direct state-driven calls exhaustive around every window boundary + interleaved histories)",
            "Real QuicSession objects are driven with stub packets over boundary-exhaustive (largest, length, truncated) grids for all six spaces and through "
            "interleaved histories with gaps and reordering; each result (the AEAD nonce actually used) is compared with the RFC value. Held on the enumerated grid, not proved for all 2^62 values.",
            "trusted: the RFC transcription rfc_decode; per-space state is set through the session's own dictionaries", "3/C16"),
    "C17": ("exploration", "runtime monitor on the real parse_frames: encoder ground-truth comparison + statement-count bound (sys.monitoring) on arbitrary bytes, exhaustive for length <= 2",
            "Well-formed sequences of all 21 frame kinds with every varint width are compared field by field with the encoder's ground truth; termination on arbitrary "
            "input is decided on logical steps (statement executions inside tlexport counted by sys.monitoring), exhaustively for all strings of length <= 2 and by "
            "random/mutated strings up to 1500 bytes.",
            "trusted: harness frame encoders (RFC 9000 sec. 19); the step bound is two orders of magnitude above observed maxima", "3/C17"),
    "C18": ("exploration", "digest equality of the output across fresh interpreters (PYTHONHASHSEED, working directory, environment, repetition) and across in-process repetition (run() for A then B vs. B alone)",
            "Real subprocesses are used because fork() does not re-seed hashing; captures are built to exercise hash-ordered containers (several CIDs per side, zero-length and 1-byte CIDs); in-process pairs include earlier runs that fail, that log (-d), that select other ports, and commands that name the same input paths for other files (rewritten in place, or from another working directory).",
            TRUST, "3/C18"),
}

NOT_YET = "check not built yet in this round (planned, see DESIGN.md section 3)"


def main():
    props = [json.loads(l) for l in open(os.path.join(HERE, "properties.jsonl"))]
    checks = []
    na = []
    for p in props:
        pid = p["id"]
        if pid in CHECKS and os.path.exists(os.path.join(HERE, "checks", pid.lower() + ".py")):
            cat, tech, text, note, ref = CHECKS[pid]
            checks.append({
                "property_id": pid,
                "quick_cmd": f"{PY} check.py {pid} --tier quick",
                "thorough_cmd": f"{PY} check.py {pid} --tier thorough",
                "evidence_file": f"evidence/{pid}.json",
                "replay_cmd_template": f"{PY} check.py {pid} --replay {{path}}",
                "engine": "vlib",
                "level_claimed": {"category": cat, "text": text, "design_ref": "DESIGN.md " + ref},
                "level_note": note,
                "technique": tech,
            })
        else:
            na.append({"property_id": pid, "reason": NOT_YET})
    m = {
        "version": 1,
        "setup_cmd": f"{PY} tools/setup.py",
        "hooks": {
            "guard": "TLEXPORT_VERIF",
            "enable": "no source hook is needed: monitors are installed from /verif by patching attributes of the imported tlexport "
                      "modules inside the forked child (TLEXPORT_VERIF=1 is set there); /repo is imported from its working tree by a fresh interpreter per check",
            "baseline_off_cmd": "cd /repo && /venv/bin/python -m pytest -ra -q -p no:cacheprovider --timeout=900 --continue-on-collection-errors",
            "source_commits": [],
            "add_only": True,
        },
        "engines": [{"name": "vlib", "path": "vlib/", "serves_properties": [c["property_id"] for c in checks],
                     "kind_free_text": "runtime monitoring: reference senders with ground truth -> real tlexport.main.run() in a forked child per case "
                                       "-> strict output oracle + in-process monitors on the real objects; three-valued verdicts"}],
        "checks": checks,
        "not_applicable": na,
        "notes": "Technique family: runtime monitoring. Every check executes the real code from /repo's working tree; see DESIGN.md.",
    }
    with open(os.path.join(HERE, "MANIFEST.json"), "w") as f:
        json.dump(m, f, indent=1)
    try:
        import jsonschema
        jsonschema.validate(m, json.load(open("/root/.vp/MANIFEST.schema.json")))
        print("MANIFEST.json valid;", len(checks), "checks,", len(na), "not claimed")
    except ImportError:
        print("jsonschema not importable here; written without validation")


if __name__ == "__main__":
    sys.exit(main())
