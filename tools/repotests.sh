#!/bin/sh
# runs the repository's own suite with the guard off; prints the summary line (baseline: 60 passed, 1 failed = test_all::testrun)
cd /repo && env -u TLEXPORT_VERIF PYTHONDONTWRITEBYTECODE=1 /venv/bin/python -m pytest -q -p no:cacheprovider --timeout=900 --continue-on-collection-errors 2>&1 | tail -3
