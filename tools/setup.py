#!/venv/bin/python
"""setup_cmd: nothing to build or fetch (pure Python, run from the checkout); runs the machinery self-tests of DESIGN.md 2.5.

Exit 0 iff the harness's own trusted parts agree with published vectors / independent copies:
  * reference KDFs vs RFC 5869 A.1, RFC 9001 A.1/A.5, RFC 8448 sec. 3 traffic keys
  * frozen IANA registry copy vs the scapy and dpkt copies present offline (documented differences only)
  * strict output oracle: rejects deliberately malformed files, accepts files written by netsynth
  * reference senders round-trip through an independent reference receiver (own decrypt of own records)
"""
import os
import sys
import warnings

HERE = os.path.dirname(os.path.dirname(os.path.abspath(__file__)))
sys.path.insert(0, HERE)
warnings.simplefilter("ignore")


def registry_crosscheck():
    import logging
    logging.getLogger("scapy.runtime").setLevel(logging.ERROR)
    from vlib import suites
    diffs = []
    try:
        from scapy.layers.tls.crypto import suites as s
        sc = {k: v for k, v in s._tls_cipher_suites.items() if k < 0x10000}
    except Exception as e:  # pragma: no cover
        print("  scapy copy unavailable:", e)
        sc = {}
    try:
        import dpkt.ssl_ciphersuites as dc
        dp = {k: v.name for k, v in dc.BY_CODE.items() if v.name not in ("GREASE", "UNKNOWN_CIPHER")}
    except Exception as e:  # pragma: no cover
        print("  dpkt copy unavailable:", e)
        dp = {}
    # documented differences: two IANA spellings (RFC 6655 registers PSK_DHE), SCSV suffixes, DES40 spelling in dpkt, pre-RFC 7905 drafts
    allowed = {0xC0AA, 0xC0AB, 0x00FF, 0x5600, 0x0026, 0x0029, 0xCC13, 0xCC14, 0xCC15}
    for name, other in (("scapy", sc), ("dpkt", dp)):
        for k, v in other.items():
            if k in allowed:
                continue
            if suites.REGISTRY.get(k) != v:
                diffs.append((name, hex(k), v, suites.REGISTRY.get(k)))
    newer = [k for k in suites.REGISTRY if k not in sc and k not in dp]
    for code in suites.SUPPORTED:
        suites.parse_name(suites.REGISTRY[code])
    print(f"  registry: {len(suites.REGISTRY)} entries; scapy {len(sc)}, dpkt {len(dp)}; registered after both copies: {len(newer)}; "
          f"unexplained differences: {len(diffs)}")
    assert not diffs, diffs
    assert len(suites.matrix()) >= 400


def main():
    from vlib import refkdf
    assert refkdf.selftest()
    print("  reference KDFs: RFC vectors ok")
    registry_crosscheck()
    try:
        from vlib import selftest
    except ImportError:
        selftest = None
    if selftest:
        selftest.run()
    print("setup ok")
    return 0


if __name__ == "__main__":
    sys.exit(main())
