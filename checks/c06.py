"""C06 - the output is always a well-formed pcapng of well-formed, reassemblable packets.

Strict output oracle (vlib.outparse, own struct code): section/interface/packet blocks with consistent lengths and padding, every packet a complete
Ethernet / IPv4-or-IPv6 / TCP-or-UDP frame with correct length fields and checksums, every TCP conversation opened by a three-way handshake and carrying its
data in gap-free, non-overlapping sequence space with consistent acknowledgements; strict reassembly must give exactly the exported streams.
Workloads: (grid) a record of n bytes carried by exactly k input packets, n x k x direction x IPv4/IPv6: at most k segments whose concatenation is the record;
(any input) decryptable, partly decryptable and undecryptable captures, foreign TCP/UDP, damaged flows, empty captures, all option combinations (-a -m -c -g -p).
"""
import random

from vlib import e2e, engine, gen, netsynth as ns, outparse, scene, suites, tcpcap, tlssynth

NS = [0, 1, 2, 3, 7, 8, 9, 15, 16, 17, 100, 1459, 1460, 1461, 2920, 16383, 16384]


def cuts_for_event(events, idx, k, rng):
    """cut points so that event idx's wire bytes are carried by exactly k segments; all other bytes of its burst by one segment before / one after"""
    bi = -1
    last = None
    off = 0
    for i, e in enumerate(events):
        if e.dir != last:
            bi += 1
            last = e.dir
            off = 0
        if i == idx:
            L = len(e.wire)
            k = min(k, L)
            inner = sorted(rng.sample(range(1, L), k - 1)) if k > 1 else []
            pts = [off] + [off + x for x in inner] + [off + L]
            return {bi: pts}, k
        off += len(e.wire)
    raise IndexError(idx)


def build(tier, seed):
    thorough = tier == "thorough"
    cases = []
    ks = list(range(1, 13))
    for n in NS:
        for k in ks if thorough else [1, 2, 3, 5, 12]:
            for d in "cs":
                cases.append({"id": f"grid-n{n}-k{k}-{d}", "kind": "grid", "n": n, "k": k, "d": d})
    for i in range(9000 if thorough else 500):
        cases.append({"id": f"any-{i}", "kind": "any", "i": i})

    def evalfn(case):
        rng = random.Random(engine.subseed("C06", seed, case["id"]))
        return eval_grid(case, rng) if case["kind"] == "grid" else eval_any(case, rng)

    return dict(cases=cases, evalfn=evalfn, level="exploration", min_nontrivial=150,
                rule="grid: record length n in {0,1,2,3,7,8,9,15,16,17,100,1459,1460,1461,2920,16383,16384} x carrying packets k in 1..12 x direction x random "
                     "version/suite/IP version; any-input: random scenes of TLS/QUIC/noise flows with faults (deleted packets, truncated, missing keys, wrong keys, bit "
                     "flips), empty capture, noise only, legacy pcap, and random option sets from {-a,-m [pairs],-c,-g,-p}. Class = (kind, parameters, options, outcome "
                     "class); non-trivial = an output file was produced and passed through the strict oracle",
                assumptions=["vlib.outparse strict reader/reassembler is validated at setup against files it must reject and accept"])


def strict_msgs(an):
    return an.errors[:3]


def eval_grid(case, rng):
    mx = suites.matrix()
    v, code, name, p = suites.pick(rng)
    n, k, d = case["n"], case["k"], case["d"]
    spec, _ = tlssynth.random_spec(rng, v, code, nmax=0)
    spec.app = [(d, rng.randbytes(n))]
    spec.alert_end = False
    spec.tickets = 0
    conn = tlssynth.build_conn(spec, rng)
    idx = next(i for i, e in enumerate(conn.events) if e.kind == "app")
    pts, k_eff = cuts_for_event(conn.events, idx, k, rng)
    ep = tcpcap.random_ep(rng)
    segs = tcpcap.segments(conn.events, ep, tcpcap.cut_at(pts))
    fl = scene.tls_flow(conn, ep, segs)
    items = scene.stamp(scene.merge([fl], rng, "concat"), rng, rng.choice(["plain", "plain", "zero", "coarse", "dense"]))
    res, files, argv = e2e.run_capture(scene.capture(items), scene.keylog_text([fl], rng))
    out = {"cls": ["grid", n, k, d, "v6" if ep.v6 else "v4"], "tags": [f"grid:k{k}"], "sample": {"case": case["id"], "suite": name, "version": suites.VNAME[v], "n": n, "k": k_eff, "dir": d}}
    fail = e2e.run_failed(res)
    if fail:
        return dict(out, v="inconclusive" if fail.startswith("INCONCLUSIVE") else "violated", msg=fail, files=files)
    an = outparse.Analysis(res.out)
    msgs = strict_msgs(an)
    kc, ks = e2e.tls_expect_keys(ep)
    key = kc if d == "c" else ks
    parts = [pk for pk in an.pkts if pk.proto == 6 and (pk.src, pk.sport, pk.dst, pk.dport) == key and (pk.flags & 0x08 or pk.payload)]
    if len(parts) > k_eff:
        msgs.append(f"a record of {n} bytes carried by {k_eff} input packets was exported as {len(parts)} segments")
    if b"".join(pk.payload for pk in parts) != conn.truth[d]:
        msgs.append(f"concatenation of the {len(parts)} exported segments ({sum(len(pk.payload) for pk in parts)}B) is not the {n}-byte record")
    msgs += e2e.check_tls_streams(an, conn, ep)
    out["mon"] = {"strict_oracle_outputs": 1, "output_packets": len(an.pkts)}
    out["nontrivial"] = True
    if msgs:
        return dict(out, v="violated", msg=f"{suites.VNAME[v]} {name} n={n} k={k_eff} dir={d}: " + "; ".join(msgs[:3]), files=dict(files, **{"out.pcapng": res.out}))
    return dict(out, v="held")


def eval_any(case, rng):
    nfl = rng.choice([0, 1, 1, 2, 3])
    flows = []
    for i in range(nfl):
        flows.append(gen.random_quic_flow(rng, i, napp=rng.choice([2, 6])) if rng.random() < 0.4 else gen.random_tls_flow(rng, i, nmax=8, segkinds=tcpcap.CUT_KINDS, perturb=rng.random() < 0.2, duplex=rng.random() < 0.25, repack=rng.random() < 0.15))
    if case["i"] % 12 == 5:
        # TLS 1.3 with a HelloRetryRequest (two plaintext ClientHellos on one connection): what is exported for it is nobody's claim, but "whatever the input" the
        # output must be a well-formed capture
        flows.append(gen.random_tls_flow(rng, len(flows), nmax=6, version=0x0304, code=rng.choice([0x1301, 0x1302, 0x1303]), hrr=True, min_records=1))
    noise = []
    for k in range(rng.choice([0, 0, 1, 3])):
        kind = rng.choice(["http", "udp", "udpq", "other", "link"])
        if kind == "link":
            noise.append(scene.link_noise(rng, rng.randrange(1, 5), k))
        elif kind == "http":
            noise.append(scene.http_on_443(rng, k, rng.random() < 0.4))
        elif kind == "udp":
            noise.append(scene.udp_noise(rng, rng.randrange(1, 5), k, rng.random() < 0.4))
        elif kind == "udpq":
            noise.append(scene.udp_noise(rng, 3, k, rng.random() < 0.4, payloads=[bytes([rng.choice([0xC0, 0xC3, 0x40, 0xE0, 0xF0])]) + rng.randbytes(rng.choice([1, 5, 30, 1200])) for _ in range(3)]))
        else:
            c = tlssynth.build_conn(tlssynth.Spec(version=0x0303, suite=0x009C, app=[("c", b"hello")]), rng)
            noise.append(scene.tls_on_other_port(c, rng, k))
    items = scene.merge(flows + noise, rng, rng.choice(["random", "bursty", "concat"])) if flows or noise else []
    fault = rng.choice(["none", "none", "delete", "truncate", "nokeys", "somekeys", "wrongkeys", "flip", "headless"])
    if items and fault == "delete":
        for _ in range(rng.randrange(1, 4)):
            if items:
                items.pop(rng.randrange(len(items)))
    elif items and fault == "truncate":
        items = items[:rng.randrange(0, len(items) + 1)]
    elif items and fault == "headless":
        items = items[rng.randrange(0, len(items)):]
    elif items and fault == "flip":
        for _ in range(rng.randrange(1, 4)):
            i = rng.randrange(len(items))
            fr = bytearray(items[i].frame)
            fr[rng.randrange(54 if len(fr) > 60 else 14, len(fr))] ^= 1 << rng.randrange(8)
            items[i] = scene.Item(bytes(fr), conn=items[i].conn, dir=items[i].dir, seg=items[i].seg, tag=items[i].tag)
    scene.stamp(items, rng, rng.choice(scene.TS_STYLES + (["coarse", "coarse"] if not any(f.kind == "quic" for f in flows) else [])))
    lines = [l for f in flows for l in f.keylog]
    if fault == "nokeys":
        lines = []
    elif fault == "somekeys":
        lines = [l for l in lines if rng.random() < 0.5]
    elif fault == "wrongkeys":
        lines = [" ".join(l.split()[:2] + [rng.randbytes(len(l.split()[2]) // 2).hex()]) for l in lines]
    rng.shuffle(lines)
    keys = ("\n".join(lines) + "\n").encode() if lines else b"# empty\n"
    extra = []
    opts = []
    for o in ("-a", "-m", "-c", "-g", "-p"):
        if rng.random() < 0.3:
            opts.append(o)
            if o == "-m":
                extra += ["-m"] + rng.choice([[], ["443:8443"], ["443:1,", "8443:2"]])
            elif o == "-p":
                extra += ["-p", str(rng.choice([8443, 1, 65535]))]
            else:
                extra.append(o)
    legacy = rng.random() < 0.15
    if legacy:
        cap = ns.pcap_legacy([("pkt", it.ts, it.frame) for it in items], le=rng.random() < 0.5)
    else:
        cap = scene.capture(items, le=rng.random() < 0.8)
    res, files, argv = e2e.run_capture(cap, keys, extra, legacy=legacy)
    out = {"cls": ["any", nfl, len(noise), fault, "+".join(opts), "legacy" if legacy else "ng"], "tags": [f"fault:{fault}"] + [f"opt:{o}" for o in opts],
           "sample": {"case": case["id"], "flows": [f.label for f in flows], "noise": len(noise), "fault": fault, "args": extra, "packets": len(items), "legacy": legacy}}
    fail = e2e.run_failed(res)
    if fail:
        return dict(out, v="inconclusive" if fail.startswith("INCONCLUSIVE") else "violated", msg=fail, files=dict(files, argv="\n".join(argv)))
    an = outparse.Analysis(res.out)
    out["mon"] = {"strict_oracle_outputs": 1, "output_packets": len(an.pkts)}
    out["nontrivial"] = True
    if an.errors:
        return dict(out, v="violated", msg=f"flows {[f.label for f in flows]} fault={fault} args={extra}: " + "; ".join(an.errors[:3]), files=dict(files, argv="\n".join(argv), **{"out.pcapng": res.out}))
    return dict(out, v="held")
