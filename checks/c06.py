"""C06 - the output is always a well-formed pcapng of well-formed, reassemblable packets.

Strict output oracle (vlib.outparse, own struct code): section/interface/packet blocks with consistent lengths and padding, every packet a complete
Ethernet / IPv4-or-IPv6 / TCP-or-UDP frame with correct length fields and checksums, every TCP conversation opened by a three-way handshake and carrying its
data in gap-free, non-overlapping sequence space with consistent acknowledgements; strict reassembly must give exactly the exported streams.
Workloads: (grid) a record of n bytes carried by exactly k input packets, n x k x direction x IPv4/IPv6: at most k segments whose concatenation is the record;
(any input) decryptable, partly decryptable and undecryptable captures, foreign TCP/UDP, damaged flows, empty captures, all option combinations (-a -m -c -g -p).
"""
import random

from vlib import quicsynth, e2e, engine, gen, netsynth as ns, outparse, scene, suites, tcpcap, tlssynth

NS = [0, 1, 2, 3, 7, 8, 9, 15, 16, 17, 100, 1459, 1460, 1461, 2920, 16383, 16384]


def cuts_for_event(events, idx, k, rng):
    """cut points so that event idx's wire bytes are carried by exactly k segments; all other bytes of its burst by one segment before / one after"""
    bi = -1
    last = None
    off = 0
    for i, e in enumerate(events):
        if e.dir != last:
            bi += 1
            last = e.dir
            off = 0
        if i == idx:
            L = len(e.wire)
            k = min(k, L)
            inner = sorted(rng.sample(range(1, L), k - 1)) if k > 1 else []
            pts = [off] + [off + x for x in inner] + [off + L]
            return {bi: pts}, k
        off += len(e.wire)
    raise IndexError(idx)


def build(tier, seed):
    thorough = tier == "thorough"
    cases = []
    ks = list(range(1, 13))
    for n in NS:
        for k in ks if thorough else [1, 2, 3, 5, 12]:
            for d in "cs":
                cases.append({"id": f"grid-n{n}-k{k}-{d}", "kind": "grid", "n": n, "k": k, "d": d})
                if n and (thorough or k in (1, 2, 5)):
                    # the same record followed by another one whose segment was captured BEFORE the record's last segment (reordering): still at most k segments
                    cases.append({"id": f"grid-n{n}-k{k}-{d}-reordered", "kind": "grid", "n": n, "k": k, "d": d, "reorder": True})
    nsw = 48 if thorough else 24
    for j in range(nsw):        # first: the slowest cases
        cases.insert(j, {"id": f"sweep-{j}", "kind": "sweep", "j": j, "of": nsw})
    for j in range(32 if thorough else 16):
        cases.insert(j, {"id": f"usweep-{j}", "kind": "usweep", "j": j})
    for i in range(9000 if thorough else 500):
        cases.append({"id": f"any-{i}", "kind": "any", "i": i})

    def evalfn(case):
        rng = random.Random(engine.subseed("C06", seed, case["id"]))
        if case["kind"] == "sweep":
            return eval_sweep(case, rng)
        if case["kind"] == "usweep":
            return eval_usweep(case, rng)
        return eval_grid(case, rng) if case["kind"] == "grid" else eval_any(case, rng)

    return dict(cases=cases, evalfn=evalfn, level="exploration", min_nontrivial=150,
                rule="grid: record length n in {0,1,2,3,7,8,9,15,16,17,100,1459,1460,1461,2920,16383,16384} x carrying packets k in 1..12 x direction x random "
                     "version/suite/IP version; any-input: random scenes of TLS/QUIC/noise flows with faults (deleted packets, truncated, missing keys, wrong keys, bit "
                     "flips), empty capture, noise only, legacy pcap, and random option sets from {-a,-m [pairs],-c,-g,-p}. Class = (kind, parameters, options, outcome "
                     "class); non-trivial = an output file was produced and passed through the strict oracle",
                assumptions=["vlib.outparse strict reader/reassembler is validated at setup against files it must reject and accept"])


def strict_msgs(an):
    return an.errors[:3]


def eval_grid(case, rng):
    mx = suites.matrix()
    v, code, name, p = suites.pick(rng)
    n, k, d = case["n"], case["k"], case["d"]
    spec, _ = tlssynth.random_spec(rng, v, code, nmax=0)
    spec.app = [(d, rng.randbytes(n))] + ([(d, rng.randbytes(rng.choice([1, 5, 300])))] if case.get("reorder") else [])
    spec.alert_end = False
    spec.tickets = 0
    conn = tlssynth.build_conn(spec, rng)
    idx = next(i for i, e in enumerate(conn.events) if e.kind == "app")
    pts, k_eff = cuts_for_event(conn.events, idx, k, rng)
    ep = tcpcap.random_ep(rng)
    segs = tcpcap.segments(conn.events, ep, tcpcap.cut_at(pts))
    if case.get("reorder"):
        ev = conn.events[idx]
        end = ev.woff + len(ev.wire)
        i = next(j for j, s_ in enumerate(segs) if s_.dir == d and s_.payload and s_.woff + len(s_.payload) == end)
        if i + 1 < len(segs) and segs[i + 1].dir == d and segs[i + 1].payload:
            segs[i], segs[i + 1] = segs[i + 1], segs[i]
    fl = scene.tls_flow(conn, ep, segs)
    items = scene.stamp(scene.merge([fl], rng, "concat"), rng, rng.choice(["plain", "plain", "zero", "coarse", "dense"]))
    res, files, argv = e2e.run_capture(scene.capture(items), scene.keylog_text([fl], rng))
    out = {"cls": ["grid", n, k, d, "v6" if ep.v6 else "v4", "reordered" if case.get("reorder") else ""], "tags": [f"grid:k{k}"], "sample": {"case": case["id"], "suite": name, "version": suites.VNAME[v], "n": n, "k": k_eff, "dir": d}}
    fail = e2e.run_failed(res)
    if fail:
        return dict(out, v="inconclusive" if fail.startswith("INCONCLUSIVE") else "violated", msg=fail, files=files)
    an = outparse.Analysis(res.out)
    msgs = strict_msgs(an)
    kc, ks = e2e.tls_expect_keys(ep)
    key = kc if d == "c" else ks
    parts = [pk for pk in an.pkts if pk.proto == 6 and (pk.src, pk.sport, pk.dst, pk.dport) == key and (pk.flags & 0x08 or pk.payload)]
    if case.get("reorder"):
        o, first = 0, []
        for pk in parts:            # the segments that carry bytes of the first record (stream offsets [0, n))
            if o < n and pk.payload:
                first.append(pk)
            o += len(pk.payload)
        if len(first) > k_eff:
            msgs.append(f"a record of {n} bytes carried by {k_eff} input packets (the next record's segment captured before its last one) was exported as {len(first)} segments")
    elif len(parts) > k_eff:
        msgs.append(f"a record of {n} bytes carried by {k_eff} input packets was exported as {len(parts)} segments")
    if b"".join(pk.payload for pk in parts) != conn.truth[d]:
        msgs.append(f"concatenation of the {len(parts)} exported segments ({sum(len(pk.payload) for pk in parts)}B) is not the {n}-byte record")
    msgs += e2e.check_tls_streams(an, conn, ep)
    out["mon"] = {"strict_oracle_outputs": 1, "output_packets": len(an.pkts)}
    out["nontrivial"] = True
    if msgs:
        return dict(out, v="violated", msg=f"{suites.VNAME[v]} {name} n={n} k={k_eff} dir={d}: " + "; ".join(msgs[:3]), files=dict(files, **{"out.pcapng": res.out}))
    return dict(out, v="held")


def eval_usweep(case, rng):
    """the same for exported QUIC datagrams: 16 connections (a second family of 16 over IPv4 in the thorough tier) between the same endpoints, each sending 4096
    datagrams whose STREAM data is the 2-byte counter value, so that the UDP checksum sum of the exported datagrams takes every residue once - including the one
    that folds to 0xFFFF and must be transmitted as 0xFFFF, not 0x0000 (RFC 768; a zero UDP checksum is not even legal over IPv6)"""
    fam, j = divmod(case["j"], 16)
    lo = j * 4096
    s_ = quicsynth.QSpec(suite=[0x1301, 0x1303][j % 2], offered=(([0x1301, 0x1303][j % 2]), 0x1302))
    s_.pn_len_mode = "rand"
    d0 = "cs"[j % 2]
    off = 0
    app = []
    for v_ in range(lo, lo + 4096):
        app.append((d0, [[("stream", 0 if d0 == "c" else 3, v_.to_bytes(2, "big"), {"off": off or None, "fin": False, "explicit_len": bool(v_ & 1)})]]))
        off += 2
    s_.app = app
    qc = quicsynth.build_qconn(s_, rng)
    v6 = fam == 0
    base = tcpcap.default_ep(5, v6, 443)
    ep = tcpcap.Endpoints(base.cmac, base.smac, base.cip, base.sip, 50000, 443)
    fl = scene.quic_flow(qc, ep)
    items = scene.stamp(scene.merge([fl], rng, "concat"), rng, "plain")
    res, files, argv = e2e.run_capture(scene.capture(items), scene.keylog_text([fl], rng), cpu=600)
    out = {"cls": ["usweep", fam, j], "tags": ["usweep"], "sample": {"case": case["id"], "ip": "v6" if v6 else "v4", "stream_data_values": [lo, lo + 4095]}}
    fail = e2e.run_failed(res)
    if fail:
        return dict(out, v="inconclusive" if fail.startswith("INCONCLUSIVE") else "violated", msg=fail, files=files)
    an = outparse.Analysis(res.out)
    msgs = strict_msgs(an)
    got = gen.flow_output(an, fl)
    if got != qc.expect:
        msgs.append(f"exported {len(got)} datagrams, the endpoints sent {len(qc.expect)} with stream data")
    zero = [p_ for p_ in an.pkts if p_.proto == 17 and p_.raw[14 + (40 if v6 else 20) + 6:14 + (40 if v6 else 20) + 8] == b"\x00\x00"]
    if zero:
        msgs.append(f"{len(zero)} exported datagram(s) carry UDP checksum 0x0000 ('not computed' over IPv4, illegal over IPv6): a checksum that computes to zero is transmitted as 0xFFFF")
    out["mon"] = {"strict_oracle_outputs": 1, "output_packets": len(an.pkts), "usweep_datagrams_checksummed": len(an.pkts)}
    out["nontrivial"] = len(an.pkts) >= 4096
    if msgs:
        return dict(out, v="violated", msg=f"UDP checksum sweep, stream data values {lo}..{lo + 4095}: " + "; ".join(msgs[:3]), files=dict(files, **{"out.pcapng": res.out}))
    return dict(out, v="held")


def eval_sweep(case, rng):
    """checksums of the *exported* frames at every carry / fold boundary (C11's boundary solving, applied to the output side): a conversation first moves a little less than
    64 KiB in each direction (so that the low sequence-number words are large and wrap soon), then several thousand 1-byte records - each exported segment and the pure ACK that
    answers it differ from their predecessors by one in one 16-bit word, so the one's-complement sum of the frame walks through a contiguous range; the client port
    advances from case to case by that range, and the cases together visit every residue of the sum (every end-around carry, double fold and the checksum values
    0x0000 / 0xFFFF).  The strict output oracle recomputes every checksum."""
    j, of = case["j"], case["of"]
    fam, j = divmod(j, 24)               # a family = 24 cases that differ in the client port only: their fixed header sums step by `step` and cover every residue
    step = 65536 // 24 + 1
    nrec = step + 40
    d0, other = ("c", "s") if fam % 2 == 0 else ("s", "c")
    code = [0x1301, 0x009C, 0x1303, 0xC02F][fam % 4]
    v = 0x0304 if code in (0x1301, 0x1303) else 0x0303
    # both directions first move 65536 - nrec - 8 bytes: the low sequence/acknowledgement words then walk through the last nrec values below 0x10000 while the
    # 1-byte records flow, first in one word, then in the other (and wrap, with the carry into the high word, at the very end)
    first = 65536 - nrec - 8
    big = [16384, 16384, 16384, first - 3 * 16384]
    app = [(d0, rng.randbytes(n_)) for n_ in big] + [(other, rng.randbytes(n_)) for n_ in big]
    app += [(other, rng.randbytes(1)) for _ in range(nrec + 20)] + [(d0, rng.randbytes(1)) for _ in range(nrec + 20)]
    spec = tlssynth.Spec(version=v, suite=code, app=app)
    spec.alert_end = False
    conn = tlssynth.build_conn(spec, rng)
    v6 = fam % 2 == 1
    base = tcpcap.default_ep(3, v6, 443)
    ep = tcpcap.Endpoints(base.cmac, base.smac, base.cip, base.sip, 1024 + j * step, 443, rng.randrange(1 << 32), rng.randrange(1 << 32))
    segs = tcpcap.segments(conn.events, ep, tcpcap.cut_records(conn.events, 1))
    fl = scene.tls_flow(conn, ep, segs)
    items = scene.stamp(scene.merge([fl], rng, "concat"), rng, "plain")
    extra = [] if fam % 2 == 0 else ["-m", "443:8443"]
    res, files, argv = e2e.run_capture(scene.capture(items), scene.keylog_text([fl], rng), extra, cpu=600)
    out = {"cls": ["sweep", fam, j, "v6" if v6 else "v4", d0], "tags": ["sweep"], "sample": {"case": case["id"], "suite": f"{code:04X}", "client_port": ep.cport, "one_byte_records_each_way": nrec, "options": extra}}
    fail = e2e.run_failed(res)
    if fail:
        return dict(out, v="inconclusive" if fail.startswith("INCONCLUSIVE") else "violated", msg=fail, files=files)
    an = outparse.Analysis(res.out)
    msgs = strict_msgs(an) + e2e.check_tls_streams(an, conn, ep, extra[1:] if extra else None)
    out["mon"] = {"strict_oracle_outputs": 1, "output_packets": len(an.pkts), "sweep_output_frames_checksummed": len(an.pkts)}
    out["nontrivial"] = len(an.pkts) > 2 * nrec
    if msgs:
        return dict(out, v="violated", msg=f"checksum sweep, client port {ep.cport}, {len(an.pkts)} output frames: " + "; ".join(msgs[:3]), files=dict(files, **{"out.pcapng": res.out}))
    return dict(out, v="held")


def eval_any(case, rng):
    nfl = rng.choice([0, 1, 1, 2, 3])
    flows = []
    # half of the multi-connection scenes: addresses that agree in some coordinates (one client port towards several servers, one server, mirrored roles, v4/v6 twins)
    pattern = rng.choice(gen.EP_PATTERNS) if nfl >= 2 and rng.random() < 0.5 else None
    eps = gen.distinct_eps(rng, nfl, pattern) if pattern else [None] * nfl
    for i in range(nfl):
        flows.append(gen.random_quic_flow(rng, i, ep=eps[i], napp=rng.choice([2, 6])) if rng.random() < 0.4 else gen.random_tls_flow(rng, i, ep=eps[i], nmax=8, segkinds=tcpcap.CUT_KINDS, perturb=rng.random() < 0.2, duplex=rng.random() < 0.25, repack=rng.random() < 0.15))
    if case["i"] % 12 == 5:
        # TLS 1.3 with a HelloRetryRequest (two plaintext ClientHellos on one connection): what is exported for it is nobody's claim, but "whatever the input" the
        # output must be a well-formed capture
        flows.append(gen.random_tls_flow(rng, len(flows), nmax=6, version=0x0304, code=rng.choice([0x1301, 0x1302, 0x1303]), hrr=True, min_records=1))
    noise = []
    for k in range(rng.choice([0, 0, 1, 3])):
        kind = rng.choice(["http", "udp", "udpq", "other", "link", "bigjunk"])
        if kind == "bigjunk":
            noise.append(scene.big_junk_on_443(rng, k, rng.random() < 0.4))
        elif kind == "link":
            noise.append(scene.link_noise(rng, rng.randrange(1, 5), k))
        elif kind == "http":
            noise.append(scene.http_on_443(rng, k, rng.random() < 0.4))
        elif kind == "udp":
            noise.append(scene.udp_noise(rng, rng.randrange(1, 5), k, rng.random() < 0.4))
        elif kind == "udpq":
            noise.append(scene.udp_noise(rng, 3, k, rng.random() < 0.4, payloads=[bytes([rng.choice([0xC0, 0xC3, 0x40, 0xE0, 0xF0])]) + rng.randbytes(rng.choice([1, 5, 30, 1200])) for _ in range(3)]))
        else:
            c = tlssynth.build_conn(tlssynth.Spec(version=0x0303, suite=0x009C, app=[("c", b"hello")]), rng)
            noise.append(scene.tls_on_other_port(c, rng, k))
    items = scene.merge(flows + noise, rng, rng.choice(["random", "bursty", "concat"])) if flows or noise else []
    fault = rng.choice(["none", "none", "delete", "truncate", "nokeys", "somekeys", "wrongkeys", "flip", "headless", "snap", "stale", "cutkeys"])
    if items and fault == "stale":
        # keep-alive probes and retransmissions that start inside an earlier segment: segments that lie (partly) below what their direction has already delivered
        tls = [k for k, f in enumerate(flows) if f.kind == "tls"]
        for _ in range(rng.randrange(1, 4)):
            if tls:
                k = rng.choice(tls)
                st = scene.stale_item(items, flows[k].ep, rng, conn=k)
                if st:
                    items.insert(st[0], st[1])
    if items and fault == "delete":
        for _ in range(rng.randrange(1, 4)):
            if items:
                items.pop(rng.randrange(len(items)))
    elif items and fault == "truncate":
        items = items[:rng.randrange(0, len(items) + 1)]
    elif items and fault == "headless":
        items = items[rng.randrange(0, len(items)):]
    elif items and fault == "snap":
        # a capture taken with a snap length: every frame ends after n octets whatever its length fields say
        sn = rng.choice([14, 34, 54, 58, 60, 66, 74, 80, 96, 128, 200, 256, 512, 1024, rng.randrange(0, 24), rng.randrange(0, 24), rng.randrange(14, 80)])
        items = [scene.Item(it.frame[:sn], conn=it.conn, dir=it.dir, ts=it.ts, seg=it.seg, tag=it.tag) for it in items]
    elif items and fault == "flip":
        for _ in range(rng.randrange(1, 4)):
            i = rng.randrange(len(items))
            fr = bytearray(items[i].frame)
            if not fr:
                continue        # an empty (runt) frame has no bit to flip
            fr[rng.randrange(54 if len(fr) > 60 else 14 if len(fr) > 14 else 0, len(fr))] ^= 1 << rng.randrange(8)
            items[i] = scene.Item(bytes(fr), conn=items[i].conn, dir=items[i].dir, seg=items[i].seg, tag=items[i].tag)
    scene.stamp(items, rng, rng.choice(scene.TS_STYLES + (["coarse", "coarse"] if not any(f.kind == "quic" for f in flows) else [])))
    lines = [l for f in flows for l in f.keylog]
    if fault == "nokeys":
        lines = []
    elif fault == "somekeys":
        lines = [l for l in lines if rng.random() < 0.5]
    elif fault == "wrongkeys":
        lines = [" ".join(l.split()[:2] + [rng.randbytes(len(l.split()[2]) // 2).hex()]) for l in lines]
    rng.shuffle(lines)
    keys = ("\n".join(lines) + "\n").encode() if lines else b"# empty\n"
    if fault == "cutkeys" and lines:
        # a key log that is still being written: the text ends somewhere inside its last line (inside the label, the client random, after an odd or an even number
        # of the secret's digits)
        keep = rng.randrange(0, len(lines))
        last = lines[keep]
        keys = ("\n".join(lines[:keep] + [last[:rng.randrange(1, len(last))]])).encode()
    extra = []
    opts = []
    for o in ("-a", "-m", "-c", "-g", "-p", "-d"):
        if rng.random() < (0.3 if o != "-d" else 0.12):
            opts.append(o)
            if o == "-m":
                extra += ["-m"] + rng.choice([[], ["443:8443"], ["443:1,", "8443:2"]])
            elif o == "-p":
                extra += ["-p", str(rng.choice([8443, 1, 65535]))]
            elif o == "-d":
                # logging switched on (the messages are built from the same objects the export is built from): level by name or the bare option, optionally filtered by file
                extra += rng.choice([["-d"], ["-d", "INFO"], ["-d", "DEBUG"], ["-d", "WARNING"], ["-d", "DEBUG", "-f", "session.py", "quic_session.py"]])
            else:
                extra.append(o)
    legacy = rng.random() < 0.15
    multi = None
    if case["i"] % 40 == 39:
        # a capture without packets and without an interface description (a section needs one only for its packet blocks): a bare section header, or a section
        # that holds nothing but secrets / name-resolution blocks (editcap --inject-secrets on an empty file, a capture stopped before the first packet)
        import struct
        e_ = rng.choice("<>")
        parts = [ns._block(0x0A0D0D0A, struct.pack(e_ + "IHHq", 0x1A2B3C4D, 1, 0, -1), e_)]
        if rng.random() < 0.6:
            parts.append(ns._block(10, struct.pack(e_ + "II", 0x544C534B, len(keys)) + keys + b"\x00" * ((-len(keys)) % 4), e_))
        if rng.random() < 0.4:
            parts.append(ns._block(4, struct.pack(e_ + "HH", 0, 0), e_))
        cap, items, flows, noise, nfl, multi, legacy = b"".join(parts), [], [], [], 0, "no-interface", False
    elif legacy:
        cap = ns.pcap_legacy([("pkt", it.ts, it.frame) for it in items], le=rng.random() < 0.5)
    elif rng.random() < 0.15:
        # a capture of several interfaces: an idle one of another link type (raw IP, Linux cooked, BSD null) described first, or two Ethernet interfaces with their own clocks
        multi = rng.choice(["idle-first", "idle-first", "two-ethernet", "other-link", "other-link"])
        if multi == "other-link":
            # the second interface is not an Ethernet device and it is *not* idle (tcpdump -i any next to eth0, a tun device, loopback on BSD): its packets are written in
            # their own framing - raw IP, Linux cooked header, BSD null header - and TLExport, which reads every packet as Ethernet, must make nothing of them, or at least
            # nothing malformed
            lt = rng.choice([101, 113, 0, 276])
            pk = []
            for n_, it in enumerate(items):
                fr = it.frame
                if n_ % 2 == 1 and len(fr) >= 34 and fr[12:14] in (b"\x08\x00", b"\x86\xdd"):
                    ip = fr[14:]
                    if lt == 101:
                        fr = ip
                    elif lt == 113:
                        fr = b"\x00\x00\x00\x01\x00\x06" + fr[6:12] + b"\x00\x00" + fr[12:14] + ip
                    elif lt == 276:
                        fr = fr[12:14] + b"\x00\x00" + b"\x00\x00\x00\x02" + b"\x00\x01\x00\x00\x06" + b"\x00" + fr[6:12] + b"\x00\x00" + ip
                    else:
                        fr = (2 if fr[12:14] == b"\x08\x00" else 30).to_bytes(4, "little") + ip
                pk.append(("pkt", it.ts, fr))
            cap = ns.pcapng_multi(pk, [(None, None), (rng.choice([None, 9]), None)], lambda n: n % 2, le=rng.random() < 0.8, linktypes=[1, lt], late_idb=rng.random() < 0.3)
        else:
          cap = ns.pcapng_multi([("pkt", it.ts, it.frame) for it in items], [(None, None), (rng.choice([None, 9]), None)], (lambda n: 1) if multi == "idle-first" else (lambda n: n // 3),
                              le=rng.random() < 0.8, linktypes=[rng.choice([101, 113, 0, 276]), 1] if multi == "idle-first" else None, late_idb=rng.random() < 0.3)
    else:
        cap = scene.capture(items, le=rng.random() < 0.8)
    res, files, argv = e2e.run_capture(cap, keys, extra, legacy=legacy)
    out = {"cls": ["any", nfl, len(noise), fault, "+".join(opts), "legacy" if legacy else ("ng-" + multi if multi else "ng")], "tags": [f"fault:{fault}"] + [f"opt:{o}" for o in opts],
           "sample": {"case": case["id"], "flows": [f.label for f in flows], "addresses": pattern, "noise": len(noise), "fault": fault, "args": extra, "packets": len(items), "legacy": legacy}}
    fail = e2e.run_failed(res)
    if fail:
        return dict(out, v="inconclusive" if fail.startswith("INCONCLUSIVE") else "violated", msg=fail, files=dict(files, argv="\n".join(argv)))
    an = outparse.Analysis(res.out)
    out["mon"] = {"strict_oracle_outputs": 1, "output_packets": len(an.pkts)}
    out["nontrivial"] = True
    if an.errors:
        return dict(out, v="violated", msg=f"flows {[f.label for f in flows]} fault={fault} args={extra}: " + "; ".join(an.errors[:3]), files=dict(files, argv="\n".join(argv), **{"out.pcapng": res.out}))
    return dict(out, v="held")
