"""C05 - export is independent of TCP segmentation, retransmission and reordering.

Two levels, same oracle idea (what reaches the record layer / the output depends only on the byte stream each endpoint sent):
  direct  real Session objects are fed real Packet objects through main.handle_packet + Session.get_tls_records with a monitor on
          Session.handle_tls_record: the records handed over per direction must equal the sender's record list - exactly once, in order.
          Cheap (no crypto, no output), which is what makes *exhaustive* enumeration possible: every cut set of short streams, every single and
          double duplicate insertion, every displacement of one segment by <= 3 positions, ISNs that wrap the sequence space anywhere.
  e2e     full runs: exported streams under a perturbed delivery (random cuts, duplicates, bounded reordering, wrapping ISNs) must equal
          the ground truth (and hence the canonical delivery's export).
Listed open finding (KNOWN_FINDINGS.txt): key=first-segment-displaced - the first payload segment of a direction is captured after a later one.
"""
import itertools
import logging
import random

from vlib import corpus, e2e, engine, outparse, scene, suites, tcpcap, tlssynth

FIRST_KEY = "first-segment-displaced"


# ------------------------------------------------------------------ direct level
class Recorder:
    def __init__(self):
        self.rec = {"c": [], "s": []}
        self.n = 0

    def __call__(self, session, record, isserver):
        self.rec["s" if isserver else "c"].append(bytes(record.raw))
        self.n += 1


def direct_run(segs, ep):
    """feed segments (tcpcap.Seg, payload-carrying) to the real code; -> {'c': [records], 's': [...]} as handed to handle_tls_record"""
    import tlexport.main as M
    from tlexport.packet import Packet
    from tlexport.session import Session
    rec = Recorder()
    orig = Session.handle_tls_record
    Session.handle_tls_record = lambda self, record, isserver: rec(self, record, isserver)
    try:
        sessions = []
        for i, s in enumerate(segs):
            pkt = Packet(tcpcap.frame(ep, s), 1000.0 + i)
            if len(pkt.tls_data) == 0:
                continue
            M.handle_packet(pkt, None, [], sessions, {}, True, False)
        for sess in sessions:
            sess.get_tls_records()
        return rec.rec, len(sessions)
    finally:
        Session.handle_tls_record = orig


def tiny_records(rng, lens):
    return [bytes([rng.choice([0x16, 0x17, 0x15, 0x14]), 3, rng.choice([0, 1, 3])]) + ln.to_bytes(2, "big") + rng.randbytes(ln) for ln in lens]


def mk_segs(stream, cuts, d, isn, peer_next):
    """cut `stream` at the offsets in `cuts` -> [Seg] for direction d"""
    edges = [0] + sorted(cuts) + [len(stream)]
    out = []
    for i in range(len(edges) - 1):
        a, b = edges[i], edges[i + 1]
        if b > a:
            out.append(tcpcap.Seg(d, (isn + 1 + a) & 0xFFFFFFFF, peer_next & 0xFFFFFFFF, 0x18, stream[a:b], a, 0))
    return out


def first_displaced(order, d):
    """trigger predicate of the listed finding: among the payload segments of direction d, the one with stream offset 0 is not delivered first"""
    ds = [s for s in order if s.dir == d and s.payload]
    return bool(ds) and ds[0].woff != 0


def judge_direct(got, want, order, label):
    """-> (verdict, msg, finding)"""
    bad = [d for d in "cs" if got[d] != want[d]]
    if not bad:
        return "held", "", None
    # listed mechanism: every failing direction has its first segment displaced, and every direction without the trigger is exact
    if all(first_displaced(order, d) for d in bad):
        return "known", f"{label}: direction(s) {bad} not reassembled with the first segment displaced", FIRST_KEY
    d = bad[0]
    return "violated", (f"{label}: {'client' if d == 'c' else 'server'} records handed to the record layer {[r.hex() for r in got[d]][:6]} != records sent "
                        f"{[r.hex() for r in want[d]][:6]}; delivery order (dir, stream offset, len): {[(s.dir, s.woff, len(s.payload)) for s in order][:24]}"), None


def eval_direct(case, rng, thorough):
    logging.disable(logging.CRITICAL)
    ep = tcpcap.default_ep(0, case.get("v6", False))
    # probe: the simplest delivery (one record per direction, one segment each) through the direct harness; if that does not come back right the
    # harness's entry points moved (refactoring) - the direct level is then unavailable (inconclusive) and the end-to-end level decides alone
    try:
        pr = {"c": tiny_records(random.Random(1), [2]), "s": tiny_records(random.Random(2), [1])}
        got, _ = direct_run(mk_segs(b"".join(pr["c"]), [], "c", 100, 501) + mk_segs(b"".join(pr["s"]), [], "s", 500, 101 + len(pr["c"][0])), ep)
        assert got == pr
    except Exception as e:
        return {"v": "inconclusive", "nontrivial": False, "cls": ["direct-unavailable"], "units": 0, "tags": ["direct-unavailable"],
                "msg": f"direct reassembly harness unavailable (entry points changed?): {e!r}"}
    units, bad, known, classes = 0, [], 0, set()
    kind = case["kind"]

    def check(order, want, label, cls):
        nonlocal units, known
        units += 1
        try:
            got, ns_ = direct_run(order, ep)
        except Exception as e:
            bad.append(f"{label}: reassembly raised {e!r}; order {[(s.dir, s.woff, len(s.payload)) for s in order][:20]}")
            return
        v, msg, finding = judge_direct(got, want, order, label)
        classes.add(cls + (v,))
        if v == "violated":
            bad.append(msg)
        elif v == "known":
            known += 1

    if kind == "cuts":
        # exhaustive cut sets of a short stream, in one direction, the other direction whole; ISN variants
        lens = case["lens"]
        for variant in range(2 if thorough else 1):
            recs = {"c": tiny_records(rng, lens), "s": tiny_records(rng, [1, 0])}
            d = case["dir"]
            o = "s" if d == "c" else "c"
            stream = b"".join(recs[d])
            n = len(stream)
            isn = {"c": rng.randrange(1 << 32), "s": rng.randrange(1 << 32)}
            if case["wrap"]:
                isn[d] = (1 << 32) - 1 - rng.randrange(0, n + 1)     # the sequence space wraps inside / at the edge of this stream
            other = mk_segs(b"".join(recs[o]), [], o, isn[o], isn[d] + 1)
            for mask in range(1 << (n - 1)):
                cuts = [i + 1 for i in range(n - 1) if mask >> i & 1]
                segs = mk_segs(stream, cuts, d, isn[d], isn[o] + 1)
                order = segs + other if mask % 2 == 0 else other + segs
                check(order, recs, f"cut set {cuts} of a {n}-byte {d} stream (isn {isn[d]:#x})", ("cuts", d, "wrap" if case["wrap"] else "nowrap", len(cuts) // 4))
    elif kind == "dups":
        # every single and double duplicate insertion into a delivery of <= 8 segments
        for rep in range(6 if thorough else 2):
            recs = {"c": tiny_records(rng, [rng.randrange(0, 5) for _ in range(3)]), "s": tiny_records(rng, [rng.randrange(0, 4) for _ in range(2)])}
            isn = {"c": rng.randrange(1 << 32), "s": rng.randrange(1 << 32)}
            segs = []
            for d in "cs":
                stream = b"".join(recs[d])
                k = rng.randrange(1, 4)
                cuts = sorted(rng.sample(range(1, len(stream)), min(k, len(stream) - 1)))
                segs += mk_segs(stream, cuts, d, isn[d], isn["s" if d == "c" else "c"] + 1)
            m = len(segs)
            for i in range(m):
                for j in range(i + 1, m + 2):
                    o1 = segs[:j] + [segs[i]] + segs[j:]
                    check(o1, recs, f"duplicate of segment {i} inserted at {j}", ("dup1", m))
                    if case["double"]:
                        for i2 in range(m):
                            for j2 in range(i2 + 1, len(o1) + 1, 2):
                                check(o1[:j2] + [segs[i2]] + o1[j2:], recs, f"duplicates of segments {i},{i2}", ("dup2", m))
    elif kind == "perm":
        # every displacement of one segment by <= 3 positions within its direction, streams of <= 8 segments
        for rep in range(40 if thorough else 10):
            nrec = rng.randrange(1, 5)
            recs = {"c": tiny_records(rng, [rng.randrange(0, 6) for _ in range(nrec)]), "s": tiny_records(rng, [rng.randrange(0, 4) for _ in range(2)])}
            d = rng.choice("cs")
            o = "s" if d == "c" else "c"
            isn = {"c": rng.randrange(1 << 32), "s": rng.randrange(1 << 32)}
            if rep % 4 == 0:
                isn[d] = (1 << 32) - 1 - rng.randrange(0, 12)
            stream = b"".join(recs[d])
            style = rng.choice(["records", "random", "bytes"])
            if style == "records":      # adversarial: every segment ends on a record boundary
                cuts = list(itertools.accumulate(len(r) for r in recs[d]))[:-1]
            elif style == "random":
                cuts = sorted(rng.sample(range(1, len(stream)), min(rng.randrange(1, 7), len(stream) - 1)))
            else:
                cuts = list(range(1, min(len(stream), 8)))
            segs = mk_segs(stream, cuts, d, isn[d], isn[o] + 1)[:8]
            want = dict(recs)
            if sum(len(s.payload) for s in segs) != len(stream):
                continue
            other = mk_segs(b"".join(recs[o]), [], o, isn[o], isn[d] + 1)
            m = len(segs)
            for i in range(m):
                for dist in (1, 2, 3):
                    if i + dist >= m:
                        break
                    order = segs[:i] + segs[i + 1:i + 1 + dist] + [segs[i]] + segs[i + 1 + dist:]
                    for place in (0, 1):
                        full = (other + order) if place == 0 else (order + other)
                        check(full, want, f"segment {i} of {m} ({style} cuts) delivered {dist} later", ("perm", style, dist, "first" if i == 0 else "later"))
    res = {"units": units, "classes": sorted(classes, key=repr), "cls": [case["id"]], "nontrivial": units > 0,
           "mon": {"handle_tls_record.histories_checked": units, "known_trigger_histories": known}, "tags": [f"direct:{kind}"],
           "sample": {"case": case["id"], "histories": units, "known_finding_histories": known}}
    if bad:
        res.update(v="violated", msg=f"{len(bad)} histories; first: {bad[0]}")
    elif known:
        res.update(v="known", finding=FIRST_KEY, msg=f"{known} histories with the first segment of a direction displaced were not reassembled")
    else:
        res["v"] = "held"
    return res


# ------------------------------------------------------------------ end-to-end level
def eval_e2e(case, rng, thorough):
    mx = suites.matrix()
    v, code, name, p = suites.pick(rng)
    spec, cl = tlssynth.random_spec(rng, v, code, nmax=14, big=False)
    if not spec.app:
        spec.app = [("c", rng.randbytes(50)), ("s", rng.randbytes(70))]
    conn = tlssynth.build_conn(spec, rng)
    ep = tcpcap.random_ep(rng)
    wrap = rng.random() < 0.4
    if wrap:
        total = {d: sum(len(e.wire) for e in conn.events if e.dir == d) for d in "cs"}
        d = rng.choice("cs")
        isn = (1 << 32) - 1 - rng.randrange(0, total[d] + 1)
        if d == "c":
            ep.cisn = isn
        else:
            ep.sisn = isn
    segkind = rng.choice(["records", "records", "random", "mss", "byte2", "tail1"])
    segs = tcpcap.segments(conn.events, ep, tcpcap.make_cutter(rng, segkind, conn.events))
    tfo = False
    if case["i"] % 6 == 5:      # TCP Fast Open: the first ClientHello segment travels on the SYN (which occupies one sequence number)
        segs, tfo = tcpcap.add_tfo(segs, server=case["i"] % 12 == 11)
        segkind += "+tfo" if tfo else ""
    base = list(segs)
    ndup = rng.choice([0, 0, 1, 2, 5])
    ndis = rng.choice([0, 1, 1, 2, 4])
    allow_first = case.get("first", False)
    pert = tcpcap.displace(tcpcap.add_duplicates(base, rng, ndup), rng, ndis, maxdist=rng.choice([1, 2, 4]), allow_first=allow_first)
    across = 0
    if case["i"] % 3 == 1:
        # segments displaced past the other direction's reply (one capture queue per direction): the peer's acknowledgement is captured before the segment it covers
        across = rng.choice([1, 2, 4])
        pert = tcpcap.displace_across(pert, conn.events, rng, across, maxdist=rng.choice([1, 2, 3]))
    trig = any(first_displaced([s for s in pert if not s.dup], d) for d in "cs")
    fl = scene.tls_flow(conn, ep, pert)
    items = scene.stamp(scene.merge([fl], rng, "concat"), rng)
    res, files, argv = e2e.run_capture(scene.capture(items), scene.keylog_text([fl], rng))
    out = {"cls": ["e2e", suites.VNAME[v], p["mode"], segkind, f"dup{min(ndup, 2)}", f"dis{min(ndis, 2)}", "wrap" if wrap else "", "first" if trig else "", "across" if across else ""],
           "tags": [f"e2e:{segkind}", f"e2e:{'wrap' if wrap else 'nowrap'}", f"e2e:dup{ndup > 0}:dis{ndis > 0}"], "nontrivial": (ndup + ndis + across > 0 or wrap or tfo) and len(conn.truth["c"]) + len(conn.truth["s"]) > 0,
           "sample": {"case": case["id"], "spec": e2e.describe_spec(spec), "segmentation": segkind, "duplicates": ndup, "displaced": ndis, "wrap": wrap,
                      "order": [(s.dir, s.woff, len(s.payload), "dup" if s.dup else "") for s in pert][:30]}}
    fail = e2e.run_failed(res)
    if fail:
        return dict(out, v="inconclusive" if fail.startswith("INCONCLUSIVE") else "violated", msg=fail, files=files)
    an = outparse.Analysis(res.out)
    msgs = e2e.check_tls_streams(an, conn, ep)
    if not msgs:
        return dict(out, v="held")
    if trig:
        # listed mechanism: only directions whose first segment is displaced may differ, and they contribute at most ... anything (garbage possible for CBC/RC4)
        kc, ks = e2e.tls_expect_keys(ep)
        okdirs = [d for d in "cs" if not first_displaced([s for s in pert if not s.dup], d)]
        clean = all((an.tcp.get(kc if d == "c" else ks) or b"") == conn.truth[d] for d in okdirs)
        # a stalled direction also stalls key switches the other side depends on; accept only when the untouched direction is exact or a prefix
        if clean or all(conn.truth[d].startswith(an.tcp.get(kc if d == "c" else ks) or b"") for d in okdirs):
            return dict(out, v="known", finding=FIRST_KEY, msg="first segment of a direction displaced: " + msgs[0])
    return dict(out, v="violated", msg=f"{suites.VNAME[v]} {name}, {segkind} cuts, {ndup} duplicates, {ndis} displaced, wrap={wrap}: " + "; ".join(msgs[:2]),
                files=dict(files, **{"out.pcapng": res.out}))


def eval_long(case, rng, thorough):
    """long-range deliveries: thousands of segments in one direction, exact duplicates that arrive hundreds to thousands of segments after their
    original, displaced segments - anything bounded in the implementation (windows, caches of seen segments, counters) is crossed"""
    v, code, name, p = suites.pick(rng)
    nseg = rng.choice([300, 1100, 1500, 2300] + ([4200, 5000] if thorough else []))
    segsize = rng.choice([7, 16, 23, 40])
    d = rng.choice("cs")
    total = nseg * segsize
    app = [("c", rng.randbytes(rng.randrange(1, 200)))]
    while total > 0:
        n = min(total, rng.choice([segsize, 700, 4000, 16000]))
        app.append((d, rng.randbytes(n)))
        total -= n
        if rng.random() < 0.1:
            app.append(("s" if d == "c" else "c", rng.randbytes(rng.randrange(1, 60))))
    spec = tlssynth.Spec(version=v, suite=code, app=app)
    conn = tlssynth.build_conn(spec, rng)
    ep = tcpcap.random_ep(rng)
    wrap = rng.random() < 0.3
    if wrap:
        tot = sum(len(e.wire) for e in conn.events if e.dir == d)
        isn = (1 << 32) - 1 - rng.randrange(0, tot + 1)
        if d == "c":
            ep.cisn = isn
        else:
            ep.sisn = isn
    segs = tcpcap.segments(conn.events, ep, tcpcap.cut_bytes(segsize, budget=nseg * 3))
    out_segs = list(segs)
    idx = [i for i, s_ in enumerate(out_segs) if s_.payload and s_.dir == d]
    ndup = rng.choice([1, 2, 4])
    dists = []
    for _ in range(ndup):
        i = rng.choice(idx[: max(1, len(idx) // 4)])
        dist = rng.choice([200, 1000, 1023, 1024, 1025, 1100, 1500, 2000, 3000, 4100])
        j = min(len(out_segs) - rng.randrange(0, 3), i + dist)      # always before the end so that something completes afterwards
        j = max(j, i + 1)
        s_ = out_segs[i]
        out_segs.insert(j, tcpcap.Seg(s_.dir, s_.seq, s_.ack, s_.flags, s_.payload, s_.woff, s_.burst, True))
        dists.append(j - i)
    ndis = rng.choice([0, 0, 2])
    pert = tcpcap.displace(out_segs, rng, ndis, maxdist=2, allow_first=False)
    fl = scene.tls_flow(conn, ep, pert)
    items = scene.stamp(scene.merge([fl], rng, "concat"), rng)
    res, files, argv = e2e.run_capture(scene.capture(items), scene.keylog_text([fl], rng), cpu=300)
    nd = sum(1 for s_ in segs if s_.payload and s_.dir == d)
    out = {"cls": ["long", suites.VNAME[v], p["mode"], nseg, segsize, d, f"dup{ndup}", f"maxdist{max(dists) // 500 * 500}", "wrap" if wrap else ""],
           "tags": ["e2e:long"], "nontrivial": len(conn.truth[d]) > 0, "mon": {"max_segments_in_one_direction": nd, "max_duplicate_distance": max(dists)},
           "sample": {"case": case["id"], "version": suites.VNAME[v], "suite": name, "segments_in_direction": nd, "segment_size": segsize, "direction": d,
                      "duplicate_distances": dists, "displaced": ndis, "wrap": wrap}}
    fail = e2e.run_failed(res)
    if fail:
        return dict(out, v="inconclusive" if fail.startswith("INCONCLUSIVE") else "violated", msg=fail, files=files)
    msgs = e2e.check_tls_streams(outparse.Analysis(res.out), conn, ep)
    if msgs:
        return dict(out, v="violated", msg=f"{suites.VNAME[v]} {name}: {nd} segments of {segsize} bytes in direction {d}, exact duplicates {dists} segments after their originals, "
                    f"{ndis} displaced, wrap={wrap}: " + "; ".join(msgs[:2]), files=dict(files, **{"out.pcapng": res.out}))
    return dict(out, v="held")


def eval_real(case, rng, thorough):
    """a real OpenSSL capture of the repository: its TCP payload streams are re-cut, duplicated and reordered without any knowledge of their content;
    every delivery must export the streams the original capture exports"""
    name, path, keys, _ = next(c for c in corpus.tls_captures() if c[0] == case["real"])
    items = corpus.load(path)
    convs = corpus.tcp_conversations(items)
    out = {"cls": ["real", name], "tags": ["e2e:real"], "sample": {"case": case["id"], "capture": name, "conversations": len(convs)}}
    if not convs:
        return dict(out, v="inconclusive", msg="no cleanly reassemblable TLS conversation in the capture", nontrivial=False)
    orig, files, argv = e2e.run_capture(open(path, "rb").read(), keys)
    fail = e2e.run_failed(orig)
    if fail:
        return dict(out, v="inconclusive" if fail.startswith("INCONCLUSIVE") else "violated", msg="original capture: " + fail, files=files)
    ref = {k: v for k, v in outparse.Analysis(orig.out).tcp.items() if v}
    bad, units, classes = [], 0, set()
    (key, (ep, events)), = list(convs.items())[:1]
    for rep in range(24 if thorough else 8):
        segkind = rng.choice(["records", "random", "mss", "byte2", "whole", "tail1"])
        ep2 = tcpcap.Endpoints(ep.cmac, ep.smac, ep.cip, ep.sip, ep.cport, ep.sport, rng.choice([1000, (1 << 32) - rng.randrange(1, 3000), rng.randrange(1 << 32)]), rng.randrange(1 << 32),
                               tcpopts=rng.random() < 0.5)
        segs = tcpcap.segments(events, ep2, tcpcap.make_cutter(rng, segkind, events))
        ndup, ndis = rng.choice([0, 1, 3]), rng.choice([0, 1, 2])
        segs = tcpcap.displace(tcpcap.add_duplicates(segs, rng, ndup), rng, ndis, maxdist=rng.choice([1, 2, 3]))
        its = [scene.Item(tcpcap.frame(ep2, s_), dir=s_.dir, seg=s_, tag="tcp") for s_ in segs]
        scene.stamp(its, rng)
        units += 1
        r, f2, a2 = e2e.run_capture(scene.capture(its), keys)
        fail = e2e.run_failed(r)
        if fail:
            if not fail.startswith("INCONCLUSIVE"):
                bad.append((f"{segkind} cuts, {ndup} duplicates, {ndis} displaced: {fail[:400]}", f2))
            continue
        got = {k: v for k, v in outparse.Analysis(r.out).tcp.items() if v}
        classes.add((segkind, min(ndup, 1), min(ndis, 1), "same" if got == ref else "differs"))
        if got != ref:
            bad.append((f"{segkind} cuts, {ndup} duplicates, {ndis} displaced: exported streams {sorted((k[1], k[3], len(v)) for k, v in got.items())} differ from those of the "
                        f"original capture {sorted((k[1], k[3], len(v)) for k, v in ref.items())}", dict(f2, **{"out.pcapng": r.out, "out_original.pcapng": orig.out})))
    out.update(units=units, classes=[["real", name] + list(c) for c in sorted(classes)], nontrivial=bool(ref) and units > 0, mon={"real_capture_deliveries": units})
    if bad:
        return dict(out, v="violated", msg=f"real capture {name}: {len(bad)} of {units} deliveries; first: {bad[0][0]}", files=bad[0][1])
    return dict(out, v="held")


def build(tier, seed):
    thorough = tier == "thorough"
    cases = []
    real = corpus.tls_captures()
    for name, path, _, _ in (real if thorough else real[1::5]):
        cases.append({"id": f"real-{name}", "kind": "real", "real": name})
    for i in range(120 if thorough else 16):
        cases.append({"id": f"long-{i}", "kind": "long"})      # first: they are the slowest cases
    for d in "cs":
        for wrap in (False, True):
            for lens in ([1, 0, 3], [0, 0, 0], [4], [2, 2]) if not thorough else ([1, 0, 3], [0, 0, 0], [4], [2, 2], [9], [0, 4], [3, 1, 0], [1, 1, 1]):
                if sum(lens) + 5 * len(lens) <= (15 if thorough else 14):
                    cases.append({"id": f"cuts-{d}-{'wrap' if wrap else 'nowrap'}-{'_'.join(map(str, lens))}", "kind": "cuts", "dir": d, "wrap": wrap, "lens": lens})
    for i in range(16 if thorough else 6):
        cases.append({"id": f"dups-{i}", "kind": "dups", "double": i % 2 == 0})
    for i in range(64 if thorough else 16):
        cases.append({"id": f"perm-{i}", "kind": "perm"})
    for i in range(10000 if thorough else 500):
        cases.append({"id": f"e2e-{i}", "kind": "e2e", "i": i, "first": i % 5 == 0})

    def evalfn(case):
        rng = random.Random(engine.subseed("C05", seed, case["id"]))
        if case["kind"] == "e2e":
            return eval_e2e(case, rng, thorough)
        if case["kind"] == "long":
            return eval_long(case, rng, thorough)
        if case["kind"] == "real":
            return eval_real(case, rng, thorough)
        return eval_direct(case, rng, thorough)

    return dict(cases=cases, evalfn=evalfn, level="exploration", min_nontrivial=100,
                rule="direct: all 2^(n-1) cut sets of 8..14-byte streams of 1-3 tiny records in either direction with and without sequence wrap; every single and "
                     "double duplicate insertion into deliveries of <= 8 segments; every displacement of one segment by 1..3 positions (record-aligned, random and "
                     "1-byte cuts); e2e: random suites/versions with record-aligned/random/MSS/k-byte cuts, 0-5 duplicates, 0-4 displaced segments, wrapping ISNs; "
                     "long: 300..2300 (thorough ..5000) segments in one direction with exact duplicates 200..4100 segments after their originals. "
                     "Class = (level, perturbation kind, parameters, outcome); non-trivial = a perturbed delivery was run and its record list / streams compared",
                assumptions=["segments of one direction never overlap partially (retransmissions are exact duplicates), as the property states"])
