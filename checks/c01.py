"""C01 - TLS-over-TCP application data is exported exactly (all versions, all suites).

Workload: reference sender (vlib.tlssynth) -> segmentation -> pcapng -> real tlexport.main.run() in a forked child.
Oracle:   strict output parser; the reassembled stream of each direction of the exported conversation must equal, byte for byte, the
          application data the sending endpoint put into its records.  In-process monitors (vlib.monitors) watch the real Decryptor's
          per-direction state (sequence numbers, CBC residue, dispatch branch) in the same runs.
"""
import random

from vlib import e2e, engine, monitors, outparse, scene, suites, tcpcap, tlssynth

LENS = {"c": [0, 1, 100, 1460], "s": [16384, 1, 0, 333]}


def matrix_history(p, rng, k):
    b = p["block"] or 16
    lens = [0, 1, b - 1, b, b + 1, 100, 1460, 16384, 2 * b, 255]
    app = []
    for i, ln in enumerate(lens):
        d = "cs"[(i + k) % 2] if i % 3 else "sc"[(i + k) % 2]
        app.append((d, rng.randbytes(ln)))
    if k % 2:
        app.reverse()
    return app


def build(tier, seed):
    thorough = tier == "thorough"
    cases = []
    mx = suites.matrix()
    reps = 8 if thorough else 1
    for r in range(reps):
        for i, (v, code, name, p) in enumerate(mx):
            cases.append({"id": f"mx{r}-{suites.VNAME[v]}-{code:04X}", "kind": "matrix", "v": v, "code": code, "rep": r, "i": i})
    nrand = 25000 if thorough else 900
    for i in range(nrand):
        cases.append({"id": f"rnd-{i}", "kind": "random", "i": i})
    for i in range(60 if thorough else 6):
        cases.append({"id": f"long-{i}", "kind": "long", "i": i})

    # "every TLS connection in the capture": captures of two or three connections that share their client endpoint, their server endpoint, or both hosts in either role
    for i in range(400 if thorough else 18):
        cases.append({"id": f"twin-{i}", "kind": "twin", "i": i})

    def evalfn(case):
        if case["kind"] == "twin":
            return eval_twin(case, seed)
        return eval_case(case, seed, thorough)

    def extra(results):
        combos = {tuple(r["cls"][:2]) for r in results if r["v"] == "held" and r["nontrivial"]}
        return {"version_suite_combinations_held": len(combos), "version_suite_combinations_in_frozen_matrix": len(mx)}

    return dict(cases=cases, evalfn=evalfn, level="exploration", min_nontrivial=len(mx), extra=extra,
                rule="core matrix: every frozen supported suite x every version it is valid for, mixed-direction history with lengths "
                     "{0,1,block-1,block,block+1,100,255,1460,16384}; random part: random (version,suite) x handshake shape (resumed, session-id "
                     "length, EtM, EMS, unknown extensions, extension-less ServerHello, every grouping of the server flight, +-handshake secrets, "
                     "+-CCS, TLS 1.3 padding, tickets, close_notify, extra CBC padding) x history (count, boundary lengths, direction pattern) x "
                     "segmentation (whole, MSS, 1-byte, k-byte, random, record-aligned) x IPv4/IPv6 x -m/-p. Class = (version, suite, resumed, "
                     "grouping, history pattern, segmentation, ip version); non-trivial = application bytes were sent and both exported streams were compared",
                assumptions=["reference sender implements the record protection of RFC 6101/2246/4346/5246/7905/8446 (independent of tlexport; "
                             "agreement of two independent implementations over the whole matrix is the evidence)"])


def make_case(case, seed, thorough):
    rng = random.Random(engine.subseed("C01", seed, case["id"]))
    if case["kind"] == "matrix":
        v, code = case["v"], case["code"]
        p = suites.parse_name(suites.REGISTRY[code])
        spec = tlssynth.Spec(version=v, suite=code, app=matrix_history(p, rng, case["i"] + case["rep"]))
        k = case["i"] + case["rep"]
        spec.resumed = k % 5 == 0
        spec.etm = k % 3 == 0
        spec.sid_len = [32, 0, 16, 1][k % 4]
        spec.pad13_max = [0, 7, 255][k % 3]
        spec.tickets = k % 2
        spec.group_server_flight = [(1, 1, 1, 1), (4,), (2, 2), (1, 3), (3, 1)][k % 5]
        spec.hs_secrets = [True, True, False, True, "client", True, "server"][k % 7]
        spec.explicit_nonce = ["seq", "random", "counter"][k % 3]
        spec.ccs13 = k % 4 != 1
        spec.cert_trap = k % 3 == 1
        spec.shuffle_exts = k % 2 == 0
        spec.server_ext = k % 6 != 1
        if k % 5 in (2, 4):     # full handshakes with client authentication; server flight of five messages
            spec.client_auth = True
            spec.group_client_flight = [(1, 1, 1), (3,), (2, 1), (1, 2)][(k // 5) % 4]
            spec.group_server_flight = [(1, 1, 1, 1, 1), (5,), (2, 3), (1, 3, 1), (4, 1), (3, 2)][(k // 5) % 6]
        spec.ch_pad = [0, 0, 1500, 0, 0, 0, 3000][k % 7]
        segkind = ["mss", "random", "whole", "records"][k % 4]
        cl = {"pattern": "matrix", "nrec": len(spec.app)}
    else:
        mx = suites.matrix()
        v, code, name, p = suites.pick(rng)
        if case["kind"] == "long":
            # long histories: several hundred records per direction under one set of keys (sequence numbers beyond one byte); the cases cycle through the five
            # versions and TLS 1.2 ChaCha20-Poly1305 so that every nonce / sequence-number construction meets one
            want = [0x0300, 0x0301, 0x0302, 0x0303, 0x0304, "chacha12"][case["i"] % 6]
            for _ in range(400):
                if (want == "chacha12" and v == 0x0303 and p["mode"] == "CHACHA") or v == want:
                    break
                v, code, name, p = suites.pick(rng)
            spec, cl = tlssynth.random_spec(rng, v, code, nmax=20, big=False)
            n = rng.randrange(650, 3000 if thorough else 1000)
            spec.app = [(rng.choice("ccs") if rng.random() < 0.8 else "s", rng.randbytes(rng.choice([0, 1, 5, 17, 64]))) for _ in range(n)]
            cl = {"pattern": "long", "nrec": n}
            segkind = rng.choice(["mss", "records", "random"])
        else:
            spec, cl = tlssynth.random_spec(rng, v, code, nmax=60 if thorough else 40)
            segkind = rng.choice(tcpcap.CUT_KINDS)
    conn = tlssynth.build_conn(spec, rng)
    sport = rng.choice([443, 443, 443, 44330, 8443, 4433, 1, 65535])
    ep = tcpcap.random_ep(rng, sport=sport)
    segs = tcpcap.segments(conn.events, ep, tcpcap.make_cutter(rng, segkind, conn.events))
    if case["kind"] == "random" and case["i"] % 12 == 7:
        segs, ok = tcpcap.add_tfo(segs, server=case["i"] % 24 == 7)     # TCP Fast Open: ClientHello (segment) on the SYN
        segkind += "+tfo" if ok else ""
    if case["kind"] == "random" and rng.random() < 0.12:
        segs = tcpcap.add_repacketized(segs, rng, rng.choice([1, 2]))   # retransmission that coalesces the following segment(s)
        segkind += "+repack"
    if case["kind"] == "random" and rng.random() < 0.25:
        segs = tcpcap.interleave_app(segs, conn.events, rng)        # full-duplex application phase
        segkind += "+duplex"
    if case["kind"] == "random" and case["i"] % 10 == 3:
        segs = tcpcap.displace_across(segs, conn.events, rng, rng.choice([1, 2, 3]), maxdist=rng.choice([1, 2]))      # a segment captured after the peer's reply to it
        segkind += "+across"
    fl = scene.tls_flow(conn, ep, segs)
    items = scene.stamp(scene.merge([fl], rng, "concat"), rng, rng.choice(scene.TS_STYLES + ["coarse"]))
    extra = []
    mapargs = None
    if sport not in (443, 44330):
        extra += ["-p", str(sport)] if rng.random() < 0.5 else ["-p", "9", str(sport)]
    r = rng.random()
    if r < 0.2:
        mapargs = []
        extra += ["-m"]
    elif r < 0.3:
        mapargs = [f"{sport}:{tcpcap.map_target(rng)}"]
        extra += ["-m"] + mapargs
    shape = "resumed" if spec.resumed else ("cauth-g" + "".join(map(str, spec.group_client_flight)) if spec.client_auth else "full")
    cls = [suites.VNAME[v], f"{code:04X}", shape + ("+bighello" if spec.ch_pad >= 1300 else ""), "g" + "".join(map(str, spec.group_server_flight)),
           cl["pattern"], segkind, "v6" if ep.v6 else "v4"]
    return dict(rng=rng, spec=spec, conn=conn, ep=ep, items=items, flows=[fl], extra=extra, mapargs=mapargs, cls=cls, segkind=segkind)


def eval_twin(case, seed):
    from vlib import gen
    rng = random.Random(engine.subseed("C01", seed, case["id"]))
    pattern = ["same-client-port", "same-client-host", "same-server", "mirrored", "same-ports-other-hosts", "small-pool"][case["i"] % 6]
    n = rng.choice([2, 2, 3])
    eps = gen.distinct_eps(rng, n, pattern)
    flows = [gen.random_tls_flow(rng, k, ep=eps[k], nmax=6, min_records=2, duplex=rng.random() < 0.3, tfo=False) for k in range(n)]
    items = scene.stamp(scene.merge(flows, rng, rng.choice(["random", "concat", "bursty"])), rng)
    res, files, argv = e2e.run_capture(scene.capture(items), scene.keylog_text(flows, rng), [])
    out = {"cls": ["twin", pattern, n] + sorted(f.label for f in flows), "nontrivial": True, "tags": ["shape:twin-" + pattern],
           "sample": {"case": case["id"], "pattern": pattern, "flows": [f.label + " " + f.ep.describe() for f in flows]}}
    fail = e2e.run_failed(res)
    if fail:
        return dict(out, v="inconclusive" if fail.startswith("INCONCLUSIVE") else "violated", msg=fail, files=dict(files, argv="\n".join(argv)))
    an = outparse.Analysis(res.out)
    msgs = [f"{f.label} {f.ep.describe()}: {m}" for f in flows for m in gen.check_flow_exact(an, f)]
    if msgs:
        return dict(out, v="violated", msg=f"{n} connections, {pattern}: " + "; ".join(msgs[:2]), files=dict(files, argv="\n".join(argv), **{"out.pcapng": res.out}))
    return dict(out, v="held")


def eval_case(case, seed, thorough):
    c = make_case(case, seed, thorough)
    conn, ep = c["conn"], c["ep"]
    cap = scene.capture(c["items"])
    keys = scene.keylog_text(c["flows"], c["rng"], decoys=c["rng"].random() < 0.35)
    mon = monitors.TlsStateMonitor()
    res, files, argv = e2e.run_capture(cap, keys, c["extra"], child_setup=mon.install)
    nbytes = len(conn.truth["c"]) + len(conn.truth["s"])
    out = {"cls": c["cls"], "nontrivial": nbytes > 0, "tags": [f"ver:{c['cls'][0]}", f"seg:{c['segkind']}", f"mode:{conn.params['mode']}", f"shape:{c['cls'][2]}"],
           "sample": {"case": case["id"], "spec": e2e.describe_spec(c["spec"]), "endpoints": ep.describe(), "segmentation": c["segkind"],
                      "packets": len(c["items"]), "args": c["extra"], "sent": {"c": len(conn.truth["c"]), "s": len(conn.truth["s"])}}}
    fail = e2e.run_failed(res)
    if fail:
        if fail.startswith("INCONCLUSIVE"):
            return dict(out, v="inconclusive", msg=fail)
        return dict(out, v="violated", msg=fail, files=dict(files, argv="\n".join(argv), stderr=res.stderr))
    an = outparse.Analysis(res.out)
    msgs = e2e.check_tls_streams(an, conn, ep, c["mapargs"])
    kc, ks = e2e.tls_expect_keys(ep, c["mapargs"])
    stray = [k for k in an.tcp if k not in (kc, ks)] + list(an.udp)
    if stray:
        msgs.append(f"output contains a conversation that is not the connection's: {[(k[1], k[3]) for k in stray][:3]}")
    mmsgs, mcount = mon.verdict(res.events, conn)
    msgs += mmsgs
    out["mon"] = mcount
    if an.errors:
        out["tags"].append("malformed-output")
    if msgs:
        return dict(out, v="violated", msg=f"{suites.VNAME[conn.spec.version]} {suites.REGISTRY[conn.spec.suite]}: " + "; ".join(msgs[:3]),
                    files=dict(files, argv="\n".join(argv), **{"out.pcapng": res.out, "stderr": res.stderr,
                                                              "truth_c.bin": conn.truth["c"], "truth_s.bin": conn.truth["s"]}))
    return dict(out, v="held")
