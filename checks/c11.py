"""C11 - with -c exactly the packets with a bad transport checksum are ignored.

(1) direct   the real calculate_checksum_tcp / calculate_checksum_udp on real Packet objects vs. an independent verifier (sum of all 16-bit words
             incl. pseudo header and the checksum field folds to 0xFFFF); payloads are *solved for* so that the running one's-complement sum lands on every
             carry/fold boundary (exactly 0xFFFF, 0x10000, 0x10001, 0x1FFFE, 0x1FFFF, 0x20000, 0x2FFFD.., multiple folds), checksum values 0x0000 / 0xFFFF
             (UDP's 0 -> 0xFFFF substitution), odd and even lengths 0..1500, both IP versions.  Also ones_complement_checksum on raw word sequences.
(2) e2e      metamorphic: export(-c, capture with subset B corrupted) must be byte-identical to export(no -c, capture with B removed), and must not fail.
"""
import logging
import random
import struct

from vlib import e2e, engine, netsynth as ns, outparse, quicsynth, scene, suites, tcpcap, tlssynth

TARGETS = [0xFFFF, 0x10000, 0x10001, 0x1FFFD, 0x1FFFE, 0x1FFFF, 0x20000, 0x20001, 0x2FFFD, 0x2FFFE, 0x2FFFF, 0x30000, 0xFFFE, 0xFFFF0, 0xFFFF1, 0x100000,
           0x10000 * 3 - 2, 0xFFFF * 2, 0xFFFF * 3, 0xFFFF * 16, 0xFFFF * 17, 0x10FFEF, 0x1000000 - 1]


def wordsum(b):
    if len(b) % 2:
        b += b"\x00"
    return sum(struct.unpack("!%dH" % (len(b) // 2), b))


def verify(src, dst, proto, l4):
    """independent receiver-side verification"""
    return ns.csum16(ns.pseudo(src, dst, proto, len(l4)) + l4) == 0


def solve(base, target, rng):
    """payload (even length) whose word sum is target - base, or None"""
    need = target - base
    if need < 0:
        return None
    words = []
    while need > 0xFFFF:
        w = rng.choice([0xFFFF, 0xFFFF, 0x8000, rng.randrange(1, 0x10000)])
        w = min(w, need)
        words.append(w)
        need -= w
    words.append(need)
    rng.shuffle(words)
    if len(words) > 740:
        return None
    return b"".join(struct.pack("!H", w) for w in words)


def mk_packet(rng, proto, v6, payload, field_mode, small=False):
    """-> (frame, correct?: bool, info); small: header fields with a small word sum, so that low fold targets are reachable"""
    if small:
        src, dst = (bytes(15) + b"\x01", bytes(15) + b"\x02") if v6 else (bytes([10, 0, 0, 1]), bytes([10, 0, 0, 2]))
        sp, dp = rng.choice([(1, 2), (443, 5), (7, 443)])
        if proto == 6:
            l4 = ns.tcp_segment(src, dst, sp, dp, rng.randrange(1, 300), rng.randrange(1, 300), 0x18, payload, window=rng.randrange(0, 64))
            off = 16
        else:
            l4 = ns.udp_datagram(src, dst, sp, dp, payload)
            off = 6
        return _finish_packet(rng, proto, v6, payload, field_mode, src, dst, sp, dp, l4, off)
    if v6:
        src, dst = rng.choice([bytes(15) + b"\x01", rng.randbytes(16)]), rng.choice([bytes(15) + b"\x02", rng.randbytes(16)])
    else:
        src, dst = rng.choice([bytes([10, 0, 0, 1]), rng.randbytes(4)]), rng.choice([bytes([10, 0, 0, 2]), rng.randbytes(4)])
    sp, dp = rng.choice([(40000, 443), (443, 40000), (rng.randrange(1, 65536), rng.randrange(1, 65536))])
    if proto == 6:
        opts = rng.choice([b"", b"", b"\x01\x01\x08\x0a" + rng.randbytes(8), b"\x01" * 4, b"\x02\x04\x05\xb4", b"\x01\x01\x08\x0a" + rng.randbytes(8) + b"\x01\x01\x05\x0a" + rng.randbytes(8)])
        l4 = ns.tcp_segment(src, dst, sp, dp, rng.randrange(1 << 32), rng.randrange(1 << 32), 0x18, payload, options=opts)
        off = 16
    else:
        l4 = ns.udp_datagram(src, dst, sp, dp, payload)
        off = 6
    return _finish_packet(rng, proto, v6, payload, field_mode, src, dst, sp, dp, l4, off)


def _finish_packet(rng, proto, v6, payload, field_mode, src, dst, sp, dp, l4, off):
    good = l4[off:off + 2]
    if field_mode == "good":
        field = good
    elif field_mode == "flip":
        field = bytes([good[0] ^ (1 << rng.randrange(8)), good[1]]) if rng.random() < 0.5 else bytes([good[0], good[1] ^ (1 << rng.randrange(8))])
    elif field_mode == "plus1":
        field = struct.pack("!H", (struct.unpack("!H", good)[0] + 1) & 0xFFFF)
    elif field_mode == "zero":
        field = b"\x00\x00"
    else:
        field = rng.randbytes(2)
    l4 = l4[:off] + field + l4[off + 2:]
    correct = verify(src, dst, proto, l4)
    if proto == 17 and field == b"\x00\x00":
        correct = None        # IPv4: "not computed"; IPv6: not allowed at all (RFC 8200 8.1) - neither is a correct or a wrong checksum value, not judged
    if proto == 6 and field == b"\xff\xff" and good == b"\x00\x00":
        correct = None        # +0/-0 alias
    # a quarter of the packets travel in VLAN tags, with IPv4 options or behind IPv6 extension headers: none of that is part of the pseudo header
    enc = ns.random_encap(rng, v6) if rng.random() < 0.25 else ns.PLAIN
    fr = ns.eth_frame(b"\x02" * 6, b"\x04" * 6, ns.ip_packet(src, dst, proto, l4, opts=enc.opts, ext=enc.ext), vlan=enc.vlan)
    return fr, correct, {"proto": proto, "v6": v6, "len": len(payload), "field": field.hex(), "good": good.hex(), "src": src, "dst": dst, "sp": sp, "dp": dp, "encap": enc.describe()}


def build(tier, seed):
    thorough = tier == "thorough"
    cases = []
    for proto in (6, 17):
        for v6 in (False, True):
            for part in range(40 if thorough else 4):
                cases.append({"id": f"direct-{'tcp' if proto == 6 else 'udp'}-{'v6' if v6 else 'v4'}-{part}", "kind": "direct", "proto": proto, "v6": v6, "part": part})
    for part in range(16 if thorough else 2):
        cases.append({"id": f"ones-{part}", "kind": "ones", "part": part})
    for i in range(6000 if thorough else 320):
        cases.append({"id": f"e2e-{i}", "kind": "e2e", "i": i})

    def evalfn(case):
        logging.disable(logging.CRITICAL)
        rng = random.Random(engine.subseed("C11", seed, case["id"]))
        if case["kind"] == "direct":
            return eval_direct(case, rng, thorough)
        if case["kind"] == "ones":
            return eval_ones(case, rng, thorough)
        return eval_e2e(case, rng)

    return dict(cases=cases, evalfn=evalfn, level="exploration", min_nontrivial=250,
                rule="direct: TCP/UDP x IPv4/IPv6 x payload lengths 0..1500 (odd and even) x checksum field {correct, bit flipped, +1, zero, random} x payloads "
                     "solved so that the unfolded sum equals each of 23 carry/fold boundary targets, and so that the correct checksum is 0x0000 (UDP: sent as 0xFFFF) "
                     "or 0xFFFF-adjacent; e2e: TLS and QUIC scenes with inserted corrupted copies and corrupted real packets, any subset. Class = (mode, protocol, ip "
                     "version, field mode, target/length class); non-trivial = the real function returned a verdict that was compared with the independent verifier, "
                     "or both e2e runs produced outputs that were compared",
                assumptions=["independent verifier: RFC 1071 sum over pseudo header + segment including the checksum field folds to 0xFFFF"])


def eval_direct(case, rng, thorough):
    from tlexport.packet import Packet
    from tlexport import checksums
    fn = checksums.calculate_checksum_tcp if case["proto"] == 6 else checksums.calculate_checksum_udp
    bad, classes, units = [], set(), 0
    n = 1500 if thorough else 900
    for j in range(n):
        mode = rng.choice(["good", "good", "good", "flip", "plus1", "zero", "rand"])
        r = rng.random()
        tclass = "rand"
        if r < 0.45:
            # solve for a fold-boundary target: base = sum of everything except the adjustable payload
            target = rng.choice(TARGETS)
            payload = None
            for _ in range(4):
                probe_rng = random.Random(rng.random())
                st = probe_rng.getstate()
                small = target < 0x40000
                fr0, _, i0 = mk_packet(probe_rng, case["proto"], case["v6"], b"", "good", small)
                l4 = fr0[ns.locate(fr0)[1]:]
                off = 16 if case["proto"] == 6 else 6
                base = wordsum(ns.pseudo(i0["src"], i0["dst"], case["proto"], len(l4)) + l4[:off] + b"\x00\x00" + l4[off + 2:])
                pl = solve(base, target, rng)
                if pl is None:
                    continue
                # the length fields change with the payload: account for them (pseudo length + UDP length)
                extra = len(pl) * (2 if case["proto"] == 17 else 1)
                pl = solve(base + extra, target, rng)
                if pl is None or len(pl) * (2 if case["proto"] == 17 else 1) != extra:
                    continue
                probe_rng.setstate(st)
                fr, correct, info = mk_packet(probe_rng, case["proto"], case["v6"], pl, "good", small)
                payload = pl
                tclass = f"sum={target:#x}"
                if mode != "good":
                    # re-make with the requested field mode on the same addresses
                    probe_rng.setstate(st)
                    fr, correct, info = mk_packet(probe_rng, case["proto"], case["v6"], pl, mode, small)
                break
            if payload is None:
                continue
        elif r < 0.6:
            # correct checksum == 0x0000 (UDP: transmitted as 0xFFFF): solve for folded sum 0xFFFF
            k = rng.choice([1, 2, 3])
            st_rng = random.Random(rng.random())
            st = st_rng.getstate()
            fr0, _, i0 = mk_packet(st_rng, case["proto"], case["v6"], b"", "good")
            l4 = fr0[ns.locate(fr0)[1]:]
            off = 16 if case["proto"] == 6 else 6
            base = wordsum(ns.pseudo(i0["src"], i0["dst"], case["proto"], len(l4)) + l4[:off] + b"\x00\x00" + l4[off + 2:])
            pl = None
            for nw in range(1, 6):
                extra = 2 * nw * (2 if case["proto"] == 17 else 1)
                tgt = 0xFFFF * k
                while tgt < base + extra:
                    tgt += 0xFFFF
                cand = solve(base + extra, tgt, rng)
                if cand is not None and len(cand) == 2 * nw:
                    pl = cand
                    break
            if pl is None:
                continue
            st_rng.setstate(st)
            fr, correct, info = mk_packet(st_rng, case["proto"], case["v6"], pl, mode)
            tclass = "csum=0"
        else:
            ln = rng.choice([0, 1, 2, 3, 7, 8, 100, 101, 1459, 1460, 1499, 1500, rng.randrange(0, 1501)])
            fr, correct, info = mk_packet(rng, case["proto"], case["v6"], rng.randbytes(ln), mode)
        if correct is None:
            continue
        if rng.random() < 0.2:
            # link-layer trailer behind the IP datagram: zero padding to the 60-byte Ethernet minimum as a receiver-side capture shows it, or a captured
            # frame check sequence / vendor trailer; it is not part of the segment and must not enter the sum
            fr = fr + (bytes(60 - len(fr)) if len(fr) < 60 else rng.choice([bytes(4), rng.randbytes(4), rng.randbytes(rng.randrange(1, 9))]))
            tclass += "+trailer"
        units += 1
        try:
            got = fn(Packet(fr, 1.0))
        except Exception as e:
            bad.append((fr, f"{'TCP' if case['proto'] == 6 else 'UDP'}/{'IPv6' if case['v6'] else 'IPv4'} packet ({info['len']}B payload, checksum field {info['field']}, "
                            f"{tclass}): checksum routine raised {e!r}; the packet's checksum is {'correct' if correct else 'wrong'}"))
            classes.add((case["id"][:14], mode, tclass if tclass != "rand" else "len%2=" + str(info["len"] % 2), "raised"))
            continue
        classes.add((case["id"][:14], mode, tclass if tclass != "rand" else "len%2=" + str(info["len"] % 2), bool(correct)))
        if info["encap"] != "plain":
            classes.add((case["id"][:14], "encap", info["encap"].split("+")[-1][:8], bool(correct)))
            tclass += " in " + info["encap"]
        if bool(got) != bool(correct):
            bad.append((fr, f"{'TCP' if case['proto'] == 6 else 'UDP'}/{'IPv6' if case['v6'] else 'IPv4'} packet ({info['len']}B payload, checksum field {info['field']}, correct value "
                            f"{info['good']}, {tclass}): checksum is {'correct' if correct else 'wrong'} but the routine says {'correct' if got else 'wrong'}"))
        if j % 6 == 0:
            # the verdict on a packet is a function of that packet alone: right after it, a packet of the OTHER transport protocol between the same two addresses, in
            # the same direction and with the same transport length (whatever a routine may remember of the packet before it - pseudo header, length - looks the same)
            tl = len(fr0_l4(fr, case["v6"]))
            if case["proto"] == 6 and tl >= 8:
                l4s = ns.udp_datagram(info["src"], info["dst"], info["sp"], info["dp"], rng.randbytes(tl - 8))
                fn2, name2 = checksums.calculate_checksum_udp, "UDP"
            elif case["proto"] == 17 and tl >= 20:
                l4s = ns.tcp_segment(info["src"], info["dst"], info["sp"], info["dp"], rng.randrange(1 << 32), rng.randrange(1 << 32), 0x18, rng.randbytes(tl - 20))
                fn2, name2 = checksums.calculate_checksum_tcp, "TCP"
            else:
                continue
            fr2 = ns.eth_frame(b"\x02" * 6, b"\x04" * 6, ns.ip_packet(info["src"], info["dst"], 17 if name2 == "UDP" else 6, l4s))
            units += 1
            try:
                got2 = fn2(Packet(fr2, 1.0))
            except Exception as e:
                got2 = repr(e)
            classes.add((case["id"][:14], "sibling", name2, got2 is True))
            if got2 is not True:
                bad.append((fr2, f"{name2} packet with a correct checksum, checked right after a {'TCP' if case['proto'] == 6 else 'UDP'} packet between the same addresses with the same transport "
                                 f"length ({tl}): the routine says {got2!r}"))
    res = {"units": units, "classes": sorted(classes, key=repr), "cls": [case["id"]], "nontrivial": units > 0, "mon": {"calculate_checksum.compared": units},
           "tags": [f"direct:{'tcp' if case['proto'] == 6 else 'udp'}:{'v6' if case['v6'] else 'v4'}"], "sample": {"case": case["id"], "packets": units}}
    if bad:
        res.update(v="violated", msg=f"{len(bad)} packet(s); first: {bad[0][1]}", files={"frame.bin": bad[0][0]})
    else:
        res["v"] = "held"
    return res


def fr0_l4(fr, v6):
    """transport segment of a frame built by mk_packet (a link-layer trailer may follow: the IP length decides)"""
    _l3, l4off, end, _pr, _v6 = ns.locate(fr)
    return fr[l4off:end]


def eval_ones(case, rng, thorough):
    from tlexport import checksums
    bad, units, classes = [], 0, set()
    for j in range(4000 if thorough else 1500):
        r = rng.random()
        if r < 0.5:
            tgt = rng.choice(TARGETS)
            data = solve(0, tgt, rng)
            if data is None:
                continue
            tclass = f"sum={tgt:#x}"
            if rng.random() < 0.3:
                data = data + b"\x00"       # odd length, padded with zero: same sum
        else:
            data = rng.randbytes(rng.choice([0, 1, 2, 3, 20, 21, 1500, rng.randrange(0, 200)]))
            tclass = "rand"
        want = struct.pack("!H", ns.csum16(bytes(data)))
        units += 1
        try:
            got = bytes(checksums.ones_complement_checksum(bytearray(data)))
        except Exception as e:
            bad.append((data, f"ones_complement_checksum raised {e!r} on {len(data)} bytes ({tclass}); RFC 1071 value is {want.hex()}"))
            continue
        classes.add(("ones", tclass, len(data) % 2))
        if got != want:
            bad.append((data, f"ones_complement_checksum({len(data)} bytes, {tclass}) = {got.hex()}, RFC 1071 gives {want.hex()}"))
    res = {"units": units, "classes": sorted(classes, key=repr), "cls": [case["id"]], "nontrivial": units > 0, "mon": {"ones_complement_checksum.compared": units},
           "tags": ["ones"], "sample": {"case": case["id"], "inputs": units}}
    if bad:
        res.update(v="violated", msg=f"{len(bad)} input(s); first: {bad[0][1]}", files={"data.bin": bad[0][0]})
    else:
        res["v"] = "held"
    return res


def eval_e2e(case, rng):
    quic = rng.random() < 0.4
    v6 = rng.random() < 0.5
    # server port: a default one, a user-selected one (-p), or - QUIC only, which TLExport follows on any port - one outside every list
    portkind = rng.choice(["443", "443", "44330", "selected", "unlisted" if quic else "selected"])
    sport = {"443": 443, "44330": 44330}.get(portkind) or rng.choice([4433, 8443, 853, rng.randrange(1024, 30000)])
    extra = ["-p", str(sport)] if portkind == "selected" else []
    if rng.random() < 0.2:
        extra += rng.choice([["-a"], ["-m"], ["-m", f"{sport}:{tcpcap.map_target(rng)}"]])
    if quic:
        s = quicsynth.random_qspec(rng, napp=rng.choice([3, 8]))
        conn = quicsynth.build_qconn(s, rng)
        ep = tcpcap.random_ep(rng, v6=v6, sport=sport)
        fl = scene.quic_flow(conn, ep)
        what = f"quic-{s.suite:04X}"
    else:
        mx = suites.matrix()
        v, code, name, p = suites.pick(rng)
        spec, _ = tlssynth.random_spec(rng, v, code, nmax=10, big=False)
        conn = tlssynth.build_conn(spec, rng)
        ep = tcpcap.random_ep(rng, v6=v6, sport=sport)
        segs = tcpcap.segments(conn.events, ep, tcpcap.make_cutter(rng, rng.choice(["mss", "random", "whole", "records", "byte2"]), conn.events))
        fl = scene.tls_flow(conn, ep, segs, ethpad=(ep.cport + ep.cisn) % 3 == 0)
        what = f"tls-{suites.VNAME[v]}"
    items = list(fl.items)
    # B: corrupted packets = (a) inserted damaged copies of real packets placed before the original, (b) real packets whose checksum is damaged
    out_items = []
    nb = 0
    mode = rng.choice(["insert", "insert", "corrupt-real", "both", "flood"])
    if mode == "flood":
        # a capture with many bad packets (a flapping link, a broken offload engine): 20-60 damaged copies of an early packet come first, then real packets lose their
        # checksum at a higher rate - the verdict on the 50th bad packet is the verdict on the first
        src = next((it for it in items if (it.seg is not None and getattr(it.seg, "payload", b"")) or quic), None)
        for _ in range(rng.randrange(20, 60) if src is not None else 0):
            fr = bytearray(src.frame)
            _l3, l4off, end, _pr, _v6 = ns.locate(fr)
            fr[end - 1 - rng.randrange(max(1, min(8, end - (l4off + (8 if quic else 20)))))] ^= 1 << rng.randrange(8)
            out_items.append((scene.Item(bytes(fr), dir=src.dir, tag="bad"), True))
            nb += 1
    for it in items:
        has_payload = (it.seg is not None and getattr(it.seg, "payload", b"")) or quic
        if has_payload and mode in ("insert", "both") and rng.random() < 0.25:
            fr = bytearray(it.frame)
            _l3, l4off, end, _pr, _v6 = ns.locate(fr)      # end of the IP datagram (a link-layer trailer may follow)
            fr[end - 1 - rng.randrange(max(1, min(8, end - (l4off + (8 if quic else 20)))))] ^= 1 << rng.randrange(8)      # payload byte flipped, checksum left as it was -> wrong
            out_items.append((scene.Item(bytes(fr), dir=it.dir, tag="bad"), True))
            nb += 1
        if has_payload and mode in ("corrupt-real", "both", "flood") and rng.random() < (0.3 if mode == "flood" else 0.12):
            fr = bytearray(it.frame)
            l4off = ns.locate(fr)[1]
            coff = l4off + (6 if quic else 16)
            fr[coff + rng.randrange(2)] ^= 1 << rng.randrange(8)
            out_items.append((scene.Item(bytes(fr), dir=it.dir, tag="bad"), True))
            nb += 1
        else:
            out_items.append((it, False))
    allitems = [x[0] for x in out_items]
    scene.stamp(allitems, rng)
    cap_bad = scene.capture(allitems)
    cap_removed = scene.capture([x[0] for x in out_items if not x[1]])
    keys = scene.keylog_text([fl], rng)
    r1, files1, argv1 = e2e.run_capture(cap_bad, keys, ["-c"] + extra)
    r2, files2, argv2 = e2e.run_capture(cap_removed, keys, extra)
    out = {"cls": ["e2e", what, "v6" if v6 else "v4", mode, "B>0" if nb else "B=0", portkind], "tags": [f"e2e:{what.split('-')[0]}:{'v6' if v6 else 'v4'}"], "nontrivial": nb > 0,
           "sample": {"case": case["id"], "flow": what, "endpoints": ep.describe(), "packets": len(allitems), "corrupted": nb, "mode": mode, "options": ["-c"] + extra}}
    for r, tag in ((r1, "run with -c on the capture with corrupted packets"), (r2, "reference run without -c on the capture with those packets removed")):
        fail = e2e.run_failed(r)
        if fail:
            if fail.startswith("INCONCLUSIVE"):
                return dict(out, v="inconclusive", msg=fail)
            return dict(out, v="violated", msg=f"{tag}: {fail}", files={"in_bad.pcapng": cap_bad, "in_removed.pcapng": cap_removed, "keys.log": keys, "stderr": r.stderr})
    if r1.out != r2.out:
        a1, a2 = outparse.Analysis(r1.out), outparse.Analysis(r2.out)
        return dict(out, v="violated", msg=f"{what}: export with -c on the capture with {nb} corrupted packets ({len(a1.pkts)} packets, {sum(len(v) for v in a1.tcp.values())} TCP payload bytes, "
                    f"{sum(len(v) for v in a1.udp.values())} datagrams) differs from export without -c on the capture with them removed ({len(a2.pkts)} packets, "
                    f"{sum(len(v) for v in a2.tcp.values())} bytes, {sum(len(v) for v in a2.udp.values())} datagrams)",
                    files={"in_bad.pcapng": cap_bad, "in_removed.pcapng": cap_removed, "keys.log": keys, "out_c.pcapng": r1.out, "out_ref.pcapng": r2.out})
    an = outparse.Analysis(r1.out)
    if nb and not (any(an.tcp.values()) or an.udp):
        out["nontrivial"] = False
    return dict(out, v="held")
