"""C15 - derived traffic keys equal the RFC key schedules, as actually installed for a connection.

Monitors on key installation inside real end-to-end runs (so the argument wiring session -> key_derivator -> Decryptor is exercised):
  TLS   Decryptor.__init__: client/server write keys, MAC secrets, the IVs the RFCs define (SSL3/TLS1.0 CBC IVs, AEAD salts, TLS 1.3 IVs),
        TLS 1.3 handshake and application sets            vs. vlib.refkdf (hashlib/hmac transcription of RFC 6101/2246/5246/8446)
  QUIC  QuicSession.set_initial_decryptor / set_tls_decryptors / check_key_epoch: initial, handshake, 0-RTT, 1-RTT key/iv/hp and every
        key-update generation                              vs. refkdf (RFC 9001 5.1, 5.2, 6)
"""
import random

from vlib import e2e, engine, monitors, quicsynth, scene, suites, tcpcap, tlssynth


def build(tier, seed):
    thorough = tier == "thorough"
    cases = []
    mx = suites.matrix()
    for r in range(60 if thorough else 2):
        for i, (v, code, name, p) in enumerate(mx):
            cases.append({"id": f"tls{r}-{suites.VNAME[v]}-{code:04X}", "kind": "tls", "v": v, "code": code, "rep": r})
    for i in range(40000 if thorough else 500):
        cases.append({"id": f"quic-{i}", "kind": "quic", "i": i})
    # edge values: secrets are searched (with the reference KDF) until a chosen component of the key material starts or ends with a zero byte / is all-ones at its
    # first byte - values a key schedule written with integer arithmetic or C-string habits gets wrong once in 256 connections
    edge_mx = mx if thorough else [m for j, m in enumerate(mx) if j % 7 == 0 or m[0] in (0x0300, 0x0301, 0x0302) and j % 3 == 0]
    for r in range(4 if thorough else 1):
        for j, (v, code, name, p) in enumerate(edge_mx):
            for w in (EDGE_WHICH if thorough else [EDGE_WHICH[(j + r) % len(EDGE_WHICH)], EDGE_WHICH[(j + r + 3) % len(EDGE_WHICH)]]):
                cases.append({"id": f"edge{r}-{suites.VNAME[v]}-{code:04X}-{w}", "kind": "tls", "v": v, "code": code, "rep": r, "edge": w})
    for i in range(600 if thorough else 24):
        cases.append({"id": f"quic-edge-{i}", "kind": "quic", "i": i, "edge": EDGE_WHICH[i % len(EDGE_WHICH)]})
    # histories: what is installed for a connection must not depend on the connections handled before it in the same process - a session and its resumption
    # (same master secret, version and suite, fresh randoms), unrelated connections with the same suite, the same in two run() calls of one process
    for i in range(1500 if thorough else 90):
        cases.append({"id": f"pair-{i}", "kind": "pair", "i": i})
    # captures merged from two tap directions: the server's first flight is captured in front of the ClientHello it answers.  No observer is obliged to find keys for
    # such a connection - but whatever *is* installed for it must be its RFC key set
    for j, (v, code, name, p) in enumerate(mx if thorough else [m for j, m in enumerate(mx) if j % 6 == 0]):
        cases.append({"id": f"swapped-{suites.VNAME[v]}-{code:04X}", "kind": "tls", "v": v, "code": code, "rep": j, "swapped": True})

    def evalfn(case):
        rng = random.Random(engine.subseed("C15", seed, case["id"]))
        if case["kind"] == "pair":
            return eval_pair(case, rng)
        return eval_tls(case, rng) if case["kind"] == "tls" else eval_quic(case, rng)

    return dict(cases=cases, evalfn=evalfn, level="exploration", min_nontrivial=len(mx),
                rule="TLS: every frozen supported suite x valid version with random master/traffic secrets and randoms (2 draws quick, 20 thorough), "
                     "handshake shapes varied (resumed, EtM, +-handshake secrets); pairs: 2-3 TLS connections of one suite in one process (a session and its resumptions, or unrelated), in one capture or one capture per run() call, every connection's installed keys compared; QUIC: random connections over 4 suites x original DCID length 8..20 x CID "
                     "lengths 0..20 x Retry x 0-RTT x 0..3 key-update generations. Class = (protocol, version/suite, shape); non-trivial = the key-installation "
                     "monitor fired and every RFC-defined component was compared",
                assumptions=["vlib.refkdf (checked against RFC 5869 / RFC 9001 A.1, A.5 vectors at setup)"])


EDGE_WHICH = ["first-zero", "client-key-zero", "server-key-zero", "client-iv-zero", "server-iv-zero", "last-zero", "first-ff"]


def edge_ok(which, km):
    """km: {'block': whole key material in RFC order, 'client_key', 'server_key', 'client_iv', 'server_iv'} -> does it have the edge value asked for"""
    if which == "first-zero":
        return km["block"][:1] == b"\x00"
    if which == "first-ff":
        return km["block"][:1] == b"\xff"
    if which == "last-zero":
        return km["block"][-1:] == b"\x00"
    part = km.get(which[:-5].replace("-", "_"))
    return bool(part) and part[0] == 0


def search(which, make, rng, tries=6000):
    for _ in range(tries):
        secret = make()
        if edge_ok(which, secret[1]):
            return secret[0]
    return None


def cmp(name, got_hex, want, msgs):
    if want is None:
        return 0
    if got_hex is None or bytes.fromhex(got_hex) != bytes(want):
        msgs.append(f"{name}: installed {got_hex}, RFC key schedule gives {bytes(want).hex()}")
    return 1


def eval_tls(case, rng):
    v, code = case["v"], case["code"]
    p = suites.parse_name(suites.REGISTRY[code])
    spec = tlssynth.Spec(version=v, suite=code, app=[("c", rng.randbytes(20)), ("s", rng.randbytes(30))])
    spec.resumed = rng.random() < 0.3
    spec.etm = rng.random() < 0.3
    spec.hs_secrets = rng.choice([True, True, True, False, "client", "server"])
    spec.sid_len = rng.choice([0, 32, 7])
    spec.group_server_flight = rng.choice([(1, 1, 1, 1), (4,), (2, 2)])
    edge = case.get("edge")
    if edge:
        from vlib import refkdf
        if v == 0x0304:
            hl = __import__("hashlib").new(p["prf"]).digest_size
            spec.hs_secrets = True

            def make13():
                sec = {k: rng.randbytes(hl) for k in ("chs", "shs", "cap", "sap")}
                k = {n: refkdf.tls13_traffic_keys(p["prf"], s_, p["key_len"]) for n, s_ in sec.items()}
                lvl = rng.choice(["hs", "ap"])
                c, s_ = (k["chs"], k["shs"]) if lvl == "hs" else (k["cap"], k["sap"])
                return sec, {"block": c[0] + c[1] + s_[0] + s_[1], "client_key": c[0], "server_key": s_[0], "client_iv": c[1], "server_iv": s_[1]}
            spec.secrets13 = search(edge, make13, rng)
        else:
            # the sender draws the two randoms first: peek at them, then look for a master secret whose key block has the edge value
            srng = random.Random(rng.random())
            peek = random.Random()
            peek.setstate(rng.getstate())
            cr, sr = peek.randbytes(32), peek.randbytes(32)
            iv_len = (12 if p["mode"] == "CHACHA" else 4) if p["aead"] else (p["block"] if p["mode"] == "CBC" and v <= 0x0301 else 0)
            n = 2 * p["mac_len"] + 2 * p["key_len"] + 2 * iv_len

            def make12():
                m = srng.randbytes(48)
                kb = refkdf.key_block(v, p["prf"], m, cr, sr, n)
                return m, dict(refkdf.split_key_block(kb, p["mac_len"], p["key_len"], iv_len), block=kb)
            spec.resumed = False
            spec.master = search(edge, make12, srng) if not (edge.endswith("iv-zero") and not iv_len) else None
    conn = tlssynth.build_conn(spec, rng)
    ep = tcpcap.random_ep(rng)
    segs = tcpcap.segments(conn.events, ep, tcpcap.cut_mss(1460))
    swapped = case.get("swapped")
    if swapped:
        b0 = [x for x in segs if x.payload and x.burst == 0]
        b1 = [x for x in segs if x.payload and x.burst == 1]
        rest = [x for x in segs if not (x.payload and x.burst in (0, 1))]
        k = next((i for i, x in enumerate(rest) if x.payload), len(rest))
        segs = rest[:k] + b1 + b0 + rest[k:]
    fl = scene.tls_flow(conn, ep, segs)
    items = scene.stamp(scene.merge([fl], rng, "concat"), rng)
    mon = monitors.TlsStateMonitor()
    res, files, argv = e2e.run_capture(scene.capture(items), scene.keylog_text([fl], rng), child_setup=mon.install)
    edge_hit = None
    if edge:
        rk_ = conn.ref_keys
        if v == 0x0304:
            edge_hit = any(edge_ok(edge, {"block": c[0] + c[1] + s_[0] + s_[1], "client_key": c[0], "server_key": s_[0], "client_iv": c[1], "server_iv": s_[1]})
                           for c, s_ in ((rk_["client_hs"], rk_["server_hs"]), (rk_["client_app"], rk_["server_app"])))
        else:
            blk = b"".join(rk_.get(k) or b"" for k in ("client_mac", "server_mac", "client_key", "server_key", "client_iv", "server_iv"))
            edge_hit = edge_ok(edge, dict({k: rk_.get(k) for k in ("client_key", "server_key", "client_iv", "server_iv")}, block=blk))
    out = {"cls": ["tls", suites.VNAME[v], f"{code:04X}", "hs-" + str(spec.hs_secrets)] + (["edge", edge, bool(edge_hit)] if edge else []),
           "tags": [f"tls:{suites.VNAME[v]}:{p['mode']}"] + ([f"edge:{edge}:{'hit' if edge_hit else 'not-applicable'}"] if edge else []),
           "sample": {"case": case["id"], "suite": suites.REGISTRY[code], "version": suites.VNAME[v], "client_random": conn.client_random.hex()}}
    fail = e2e.run_failed(res)
    if fail:
        return dict(out, v="inconclusive" if fail.startswith("INCONCLUSIVE") else "violated", msg=fail, files=files)
    evs_all = monitors.parse_events(res.events)
    inits = [e for e in evs_all if e["ev"] == "init"]
    if any(e["ev"] == "monitor-unavailable" for e in evs_all) or (inits and not any(k in inits[-1] for k in ("client_key", "client_application_key"))):
        # the installation point moved (refactoring): fall back to the indirect observation - records decrypt to the sent plaintext only with the RFC keys
        from vlib import outparse
        m2 = e2e.check_tls_streams(outparse.Analysis(res.out), conn, ep)
        out["tags"].append("indirect")
        if m2:
            return dict(out, v="inconclusive", msg="key monitor unavailable and the export is not exact (C01 decides): " + m2[0][:200], nontrivial=False)
        return dict(out, v="held", nontrivial=True, mon={"tls.keys_observed_indirectly": 1})
    if swapped:
        # every key set installed for the connection must be its own; none installed is no violation (and no evidence)
        out["cls"].append("hello-swapped")
        out["tags"].append("tls:hello-swapped:" + ("installed" if inits else "nothing-installed"))
        msgs, n = [], 0
        for e in inits:
            n += compare_installed(e, conn, spec, p, msgs)
        out["mon"] = {"tls.key_components_compared": n, "tls.decryptor_init_events": len(inits), "tls.hello_swapped_runs": 1}
        out["nontrivial"] = True
        if msgs:
            return dict(out, v="violated", msg=f"{suites.VNAME[v]} {suites.REGISTRY[code]}, ServerHello captured before the ClientHello: " + "; ".join(msgs[:3]), files=files)
        return dict(out, v="held")
    if not inits:
        return dict(out, v="inconclusive", msg="Decryptor.__init__ was never reached: the key-installation monitor observed nothing", nontrivial=False)
    e = inits[-1]
    msgs = []
    n = compare_installed(e, conn, spec, p, msgs)
    out["mon"] = {"tls.key_components_compared": n, "tls.decryptor_init_events": len(inits)}
    out["nontrivial"] = n > 0
    if msgs:
        return dict(out, v="violated", msg=f"{suites.VNAME[v]} {suites.REGISTRY[code]}: " + "; ".join(msgs[:3]), files=files)
    return dict(out, v="held")


def compare_installed(e, conn, spec, p, msgs):
    """one Decryptor.__init__ event against the reference key schedule of one connection -> number of components compared"""
    v = spec.version
    n = 0
    rk = conn.ref_keys
    if v == 0x0304:
        for side, c in (("client", "c"), ("server", "s")):
            n += cmp(f"{side} application key", e.get(f"{side}_application_key"), rk[f"{side}_app"][0], msgs)
            n += cmp(f"{side} application iv", e.get(f"{side}_application_iv"), rk[f"{side}_app"][1], msgs)
            if spec.hs_secrets is True or spec.hs_secrets == side:
                n += cmp(f"{side} handshake key", e.get(f"{side}_handshake_key"), rk[f"{side}_hs"][0], msgs)
                n += cmp(f"{side} handshake iv", e.get(f"{side}_handshake_iv"), rk[f"{side}_hs"][1], msgs)
    else:
        for side in ("client", "server"):
            n += cmp(f"{side}_write_key", e.get(f"{side}_key"), rk[f"{side}_key"], msgs)
            if not p["aead"]:
                n += cmp(f"{side}_write_MAC_secret", e.get(f"{side}_mac"), rk[f"{side}_mac"], msgs)
            if rk["iv_len"]:
                n += cmp(f"{side}_write_IV", e.get(f"{side}_iv"), rk[f"{side}_iv"], msgs)
    return n


def eval_pair(case, rng):
    """2-3 connections with the same version and suite handled by one process; every one of them must get the keys of ITS randoms and secrets"""
    from vlib import gen, outparse
    v, code, name, _p = suites.pick(rng)
    p = suites.parse_name(suites.REGISTRY[code])
    related = v != 0x0304 and rng.random() < 0.7
    nconn = rng.choice([2, 2, 3])
    flows = []
    # unrelated connections: half of the time the later ones use another suite of the same version, or any other version and suite (other key / IV / MAC lengths,
    # another PRF hash) - whatever a derivation keeps from one connection must not shape the keys of the next
    mix = "same-suite" if related else rng.choice(["same-suite", "same-version", "any"])
    for k in range(nconn):
        resume = rng.choice(flows) if flows and related else None
        vk, ck = v, code
        if k and mix != "same-suite":
            for _ in range(40):
                v2, c2, _n, _p2 = suites.pick(rng)
                if mix == "any" or v2 == v:
                    vk, ck = v2, c2
                    break
        flows.append(gen.random_tls_flow(rng, k, nmax=4, version=vk, code=ck, segkinds=("mss", "whole"), resume_of=resume))
    mode = rng.choice(["one-capture", "one-capture", "run-per-connection"])
    keys = scene.keylog_text(flows, rng)
    mon = monitors.TlsStateMonitor()
    from vlib import runner
    if mode == "one-capture":
        items = scene.stamp(scene.merge(flows, rng, rng.choice(["concat", "random", "nested", "bursty"])), rng)
        files = {"in.pcapng": scene.capture(items), "keys.log": keys}
        argv = ["-i", "{dir}/in.pcapng", "-o", "{dir}/out.pcapng", "-s", "{dir}/keys.log"]
        res = runner.run_tlexport(files, argv, child_setup=mon.install)
    else:
        files = {"keys.log": keys}
        argv = []
        for k, fl in enumerate(flows):
            files[f"in{k}.pcapng"] = scene.capture(scene.stamp(scene.merge([fl], rng, "concat"), rng))
            argv.append(["-i", f"{{dir}}/in{k}.pcapng", "-o", f"{{dir}}/out{k}.pcapng", "-s", "{dir}/keys.log"])
        res = runner.run_tlexport(files, argv, child_setup=mon.install, outnames=tuple(f"out{k}.pcapng" for k in range(len(flows)))[::-1])
    out = {"cls": ["pair", suites.VNAME[v], p["mode"], "related" if related else "unrelated-" + mix, mode, len(flows)],
           "tags": [f"pair:{suites.VNAME[v]}:{'resumption' if related else 'unrelated-' + mix}:{mode}"],
           "sample": {"case": case["id"], "suite": suites.REGISTRY[code], "version": suites.VNAME[v], "connections": [f.label + " " + f.ep.describe() for f in flows], "mode": mode}}
    fail = e2e.run_failed(res)
    if fail:
        return dict(out, v="inconclusive" if fail.startswith("INCONCLUSIVE") else "violated", msg=fail, files=files)
    evs_all = monitors.parse_events(res.events)
    inits = [e for e in evs_all if e["ev"] == "init"]
    if any(e["ev"] == "monitor-unavailable" for e in evs_all) or (inits and not any(k in inits[-1] for k in ("client_key", "client_application_key"))):
        if mode != "one-capture":
            if any(o is None for o in res.outs):
                return dict(out, v="violated", msg="a run() of the sequence wrote no output file", files=files)
            m2 = [m for fl, o in zip(flows, res.outs[::-1]) for m in e2e.check_tls_streams(outparse.Analysis(o), fl.conn, fl.ep, label=fl.label + " ")]
        else:
            an = outparse.Analysis(res.out)
            m2 = [m for fl in flows for m in e2e.check_tls_streams(an, fl.conn, fl.ep, label=fl.label + " ")]
        out["tags"].append("indirect")
        if m2:
            return dict(out, v="inconclusive", msg="key monitor unavailable and the export is not exact (C04 decides): " + m2[0][:200], nontrivial=False)
        return dict(out, v="held", nontrivial=True, mon={"tls.keys_observed_indirectly": len(flows)})
    if not inits:
        return dict(out, v="inconclusive", msg="Decryptor.__init__ was never reached: the key-installation monitor observed nothing", nontrivial=False)
    last = {}
    for e in inits:
        last[e["o"]] = e            # the state an object was last initialised with
    msgs, n = [], 0
    for fl in flows:
        best = None
        for e in last.values():
            m = []
            k = compare_installed(e, fl.conn, fl.conn.spec, suites.parse_name(suites.REGISTRY[fl.conn.spec.suite]), m)
            if k and (best is None or len(m) < len(best[1])):
                best = (k, m)
        if best is None:
            msgs.append(f"{fl.label} {fl.ep.describe()}: no key installation with comparable components was observed")
            continue
        n += best[0]
        if best[1]:
            msgs.append(f"{fl.label} {fl.ep.describe()} (client random {fl.conn.client_random.hex()[:16]}..): none of the {len(last)} installed key sets is this connection's; "
                        f"the closest differs in {len(best[1])} component(s): {best[1][0]}")
    out["mon"] = {"tls.key_components_compared": n, "tls.decryptor_init_events": len(inits)}
    out["nontrivial"] = n > 0
    if msgs:
        return dict(out, v="violated", msg=f"{suites.VNAME[v]} {suites.REGISTRY[code]}, {mode}, {'session + resumption(s)' if related else 'unrelated connections'}: " + "; ".join(msgs[:3]), files=files)
    return dict(out, v="held")


def eval_quic(case, rng):
    s = quicsynth.random_qspec(rng, napp=rng.choice([2, 6, 10]))
    if rng.random() < 0.6 and s.app:
        s.key_updates = tuple(sorted(rng.sample(range(len(s.app)), min(len(s.app), rng.choice([1, 2, 3, 4])))))
    edge = case.get("edge")
    if edge:
        from vlib import refkdf
        pq = suites.parse_name(suites.REGISTRY[s.suite])
        hl = __import__("hashlib").new(pq["prf"]).digest_size

        def makeq():
            sec = {k: rng.randbytes(hl) for k in ("chs", "shs", "cap", "sap")}
            k = {n_: refkdf.quic_keys(pq["prf"], s_, pq["key_len"]) for n_, s_ in sec.items()}
            lvl = rng.choice(["hs", "ap"])
            c, s_ = (k["chs"], k["shs"]) if lvl == "hs" else (k["cap"], k["sap"])
            if rng.random() < 0.3:      # the header-protection key as the component under test
                c, s_ = dict(c, key=c["hp"]), dict(s_, key=s_["hp"])
            return sec, {"block": c["key"] + c["iv"] + c["hp"] + s_["key"] + s_["iv"] + s_["hp"], "client_key": c["key"], "server_key": s_["key"], "client_iv": c["iv"], "server_iv": s_["iv"]}
        s.secrets = search(edge, makeq, rng)
    qc = quicsynth.build_qconn(s, rng)
    ep = tcpcap.random_ep(rng)
    fl = scene.quic_flow(qc, ep)
    items = scene.stamp(scene.merge([fl], rng, "concat"), rng)
    mon = monitors.QuicMonitor()
    res, files, argv = e2e.run_capture(scene.capture(items), scene.keylog_text([fl], rng), child_setup=mon.install)
    ku = len(qc.info["key_updates_done"])
    out = {"cls": ["quic", f"{s.suite:04X}", s.odcid_len, "retry" if s.retry else "", "0rtt" if s.zero_rtt else "", f"ku{ku}"],
           "tags": [f"quic:{s.suite:04X}", f"quic:ku{ku}"] + ([f"edge:{edge}:{'hit' if s.secrets else 'none'}"] if edge else []), "sample": {"case": case["id"], "spec": quicsynth.describe(s), "key_updates": ku}}
    fail = e2e.run_failed(res)
    if fail:
        return dict(out, v="inconclusive" if fail.startswith("INCONCLUSIVE") else "violated", msg=fail, files=files)
    evs_all = monitors.parse_events(res.events)
    evs = [e for e in evs_all if e["ev"] == "qkeys"]
    if any(e["ev"] == "monitor-unavailable" for e in evs_all) or (evs and not any(e["keys"] for e in evs)):
        from vlib import outparse
        from checks.c02 import check_quic_output
        m2, _ = check_quic_output(outparse.Analysis(res.out), qc, ep)
        out["tags"].append("indirect")
        if m2:
            return dict(out, v="inconclusive", msg="key monitor unavailable and the export is not exact (C02 decides): " + m2[0][:200], nontrivial=False)
        return dict(out, v="held", nontrivial=bool(qc.expect), mon={"quic.keys_observed_indirectly": 1})
    if not evs:
        return dict(out, v="inconclusive", msg="no QUIC key-installation event observed", nontrivial=False)
    msgs = []
    n = 0
    rk = qc.ref_keys
    inits = [e for e in evs if e["where"] == "initial"]
    tls = [e for e in evs if e["where"] == "tls"]
    kus = [e for e in evs if e["where"] == "keyupdate"]
    if inits:
        e = inits[-1]
        for side, c in (("client", "c"), ("server", "s")):
            for part in ("key", "iv", "hp"):
                n += cmp(f"{side} initial {part} (DCID {rk['initial']['dcid'].hex()})", e["keys"].get(f"{side}_initial_{part}"), rk["initial"][c][part], msgs)
        if s.retry and len(inits) >= 2:
            e0 = inits[0]
            for side, c in (("client", "c"), ("server", "s")):
                n += cmp(f"{side} initial key before Retry", e0["keys"].get(f"{side}_initial_key"), rk["initial_before_retry"][c]["key"], msgs)
    else:
        msgs.append("set_initial_decryptor was never called")
    if tls:
        e = tls[-1]
        for side, c in (("client", "c"), ("server", "s")):
            for part in ("key", "iv", "hp"):
                n += cmp(f"{side} handshake {part}", e["keys"].get(f"{side}_handshake_{part}"), rk["handshake"][c][part], msgs)
                n += cmp(f"{side} 1-RTT {part}", e["keys"].get(f"{side}_application_{part}"), rk["app"][0][c][part], msgs)
        if s.zero_rtt and s.early_secret_line:
            for part in ("key", "iv", "hp"):
                n += cmp(f"0-RTT {part}", e["keys"].get(f"client_early_{part}"), rk["early"][part], msgs)
    else:
        msgs.append("set_tls_decryptors was never called")
    if ku:
        if not kus:
            msgs.append(f"{ku} key update(s) were sent but no new key generation was installed")
        else:
            gens = kus[-1]["decs"].get("Application", [])
            if any(g.get("unobservable") for g in gens):
                # the decryptor objects no longer expose their keys (refactoring): the generations are observed indirectly - data sent under them is exported exactly
                from vlib import outparse
                from checks.c02 import check_quic_output
                m2, _ = check_quic_output(outparse.Analysis(res.out), qc, ep)
                out["tags"].append("indirect-key-updates")
                if m2:
                    return dict(out, v="inconclusive", msg="key-update generations not observable and the export is not exact (C02 decides): " + m2[0][:200], nontrivial=False)
                gens = []
                ku = 0
            if len(gens) < ku + 1:
                msgs.append(f"{ku} key update(s) sent, {len(gens) - 1} generation(s) installed")
            for g in range(1, min(len(gens), ku + 1)):
                for side, c in (("client", "c"), ("server", "s")):
                    n += cmp(f"{side} key of generation {g}", gens[g].get(f"{side}_key"), rk["app"][g][c]["key"], msgs)
                    n += cmp(f"{side} iv of generation {g}", gens[g].get(f"{side}_iv"), rk["app"][g][c]["iv"], msgs)
    out["mon"] = {"quic.key_components_compared": n, "quic.key_events": len(evs), "quic.key_update_generations": len(kus)}
    out["nontrivial"] = n > 0
    if msgs:
        return dict(out, v="violated", msg=f"QUIC {s.suite:04X}: " + "; ".join(msgs[:3]), files=files)
    return dict(out, v="held")
