"""C12 - the export does not depend on the capture container.

Metamorphic oracle: the same packet list is written into many containers and every output file must be byte-identical to the baseline's (pcapng,
little-endian, default microsecond resolution).  Containers: pcapng little/big endian x if_tsresol {absent, 3, 6, 9, 0x80|k (powers of two)} x if_tsoffset x
name-resolution / interface-statistics / custom / unknown blocks interspersed at any position; legacy pcap little/big endian with microsecond and nanosecond
magic (run with -l).  Timestamps are drawn from the grid representable in every container of the group (multiples of 1000 us with millisecond resolution,
of 15625 us = 1/64 s with power-of-two resolutions), so equality is only demanded where the inputs really are equal.
"""
import os
import random
import struct

from vlib import corpus, e2e, engine, gen, netsynth as ns, outparse, scene


def junk_block(rng, e, allow_idb=True):
    # (an interface description in front of the packets' own would renumber the interfaces: only behind it)
    k = rng.choice(["nrb", "isb", "custom", "custom-nocopy", "unknown", "foreign-secrets"] + (["idb-unused"] if allow_idb else []))
    if k == "foreign-secrets":
        # a decryption-secrets block for another protocol (pcapng section 4.7 registers ZigBee network and link keys - 16 binary octets -, WireGuard key logs - text -,
        # and leaves the rest open): secrets, but not TLS key-log text
        st, data = rng.choice([(0x5A4E574B, rng.randbytes(16)), (0x5A4E574B, bytes([0x80 | rng.randrange(128)]) + rng.randbytes(15)), (0x5A415053, rng.randbytes(16) + rng.randbytes(4)),
                               (0x57474B4C, b"LOCAL_STATIC_PRIVATE_KEY = " + rng.randbytes(33).hex().encode()[:44] + b"\nLOCAL_EPHEMERAL_PRIVATE_KEY = " + rng.randbytes(33).hex().encode()[:44] + b"\n"),
                               (rng.choice([0x53534850, 0x4F504355, 0x7F000001]), rng.randbytes(rng.randrange(1, 90)))])
        return (10, struct.pack(e + "II", st, len(data)) + data + b"\x00" * ((-len(data)) % 4))
    if k == "idb-unused":
        # a second interface no packet refers to, with its own resolution and offset: unrelated to the packets of interface 0
        opts = ns._opt(2, b"lo", e) + ns._opt(9, bytes([rng.choice([3, 9, 0x80 | 10])]), e) + (ns._opt(14, struct.pack(e + "q", 7200), e) if rng.random() < 0.5 else b"") + ns._opt(0, b"", e)
        return (1, struct.pack(e + "HHI", rng.choice([1, 113]), 0, rng.choice([96, 65535])) + opts)
    if k == "nrb":
        name = b"host%d.example\x00" % rng.randrange(100)
        rec = struct.pack(e + "HH", 1, 4 + len(name)) + bytes([10, 0, 0, rng.randrange(1, 255)]) + name
        rec += b"\x00" * ((-len(rec)) % 4)
        return (4, rec + struct.pack(e + "HH", 0, 0))
    if k == "isb":
        opt = struct.pack(e + "HH", 4, 8) + struct.pack(e + "Q", rng.randrange(1 << 40)) + struct.pack(e + "HH", 0, 0)
        return (5, struct.pack(e + "III", 0, rng.randrange(1 << 20), rng.randrange(1 << 32)) + opt)
    if k == "custom":
        return (0x00000BAD, struct.pack(e + "I", 32473) + rng.randbytes(rng.randrange(0, 40)))
    if k == "custom-nocopy":
        return (0x40000BAD, struct.pack(e + "I", 32473) + rng.randbytes(rng.randrange(0, 40)))
    if rng.random() < 0.25:     # non-packet blocks are not bounded by the snap length: name-resolution / custom blocks of several hundred kB exist
        return (rng.choice([0x00000BAD, 0x0000ABCD, 4 if e == "!" else 0x40000BAD]), struct.pack(e + "I", 32473) + rng.randbytes(rng.choice([70000, 266232, 266236, 300000, 1048576])))
    return (rng.choice([0x0000ABCD, 0x00000007, 0x00000009, 0x80000001]), rng.randbytes(rng.randrange(0, 64)))


def with_junk(rng, pk, e, n):
    out = list(pk)
    for _ in range(n):
        bt, body = junk_block(rng, e)
        out.insert(rng.randrange(0, len(out) + 1), ("raw", bt, body))
    return out


def containers(rng, pk, grid, thorough, keys=b""):
    """-> [(label, bytes, legacy?[, keys come from a DSB only?])]"""
    out = []
    for le in (True, False):
        e = "<" if le else ">"
        tag = "le" if le else "be"
        if not le:
            out.append((f"pcapng-{tag}", ns.pcapng(pk, le=le), False))
        out.append((f"pcapng-{tag}-tsresol6", ns.pcapng(pk, le=le, tsresol=6), False))
        out.append((f"pcapng-{tag}-tsresol9", ns.pcapng(pk, le=le, tsresol=9), False))
        out.append((f"pcapng-{tag}-junk", ns.pcapng(with_junk(rng, pk, e, rng.randrange(1, 8)), le=le, junk_blocks=rng.random() < 0.5), False))
        off = rng.choice([1, 3600, 1600000000, -5])
        out.append((f"pcapng-{tag}-tsoffset", ns.pcapng(pk, le=le, tsoffset=off), False))
        out.append((f"pcapng-{tag}-tsresol9-tsoffset-junk", ns.pcapng(with_junk(rng, pk, e, 3), le=le, tsresol=9, tsoffset=off), False))
        out.append((f"pcapng-{tag}-obsolete-packet-blocks", ns.pcapng(pk, le=le, obsolete_pb=rng.choice([0.3, 1.0]), tsresol=rng.choice([None, 9])), False))
        out.append((f"pcapng-{tag}-blocks-before-idb", ns.pcapng(pk, le=le, pre_idb=[("raw",) + junk_block(rng, e, allow_idb=False) for _ in range(rng.randrange(1, 4))]), False))
        out.append((f"pcapng-{tag}-tsoffset-then-tsresol9", ns.pcapng(pk, le=le, tsresol=9, tsoffset=off, offset_first=True), False))
        out.append((f"pcapng-{tag}-extra-options", ns.pcapng(pk, le=le, tsresol=rng.choice([None, 6, 9]), tsoffset=rng.choice([None, off]), offset_first=rng.random() < 0.5,
                                                             extra_opts=True, epb_opts=True), False))
        out.append((f"pcapng-{tag}-section-length-stated", ns.pcapng(pk, le=le, seclen=True, extra_opts=rng.random() < 0.8, tsresol=rng.choice([None, 6])), False))
        if grid % 1000 == 0:
            out.append((f"pcapng-{tag}-tsoffset-then-tsresol3", ns.pcapng(pk, le=le, tsresol=3, tsoffset=off, offset_first=True, epb_opts=rng.random() < 0.5), False))
        if grid % 15625 == 0:
            out.append((f"pcapng-{tag}-tsoffset-then-tsresol2^-20", ns.pcapng(pk, le=le, tsresol=0x80 | 20, tsoffset=off, offset_first=True), False))
        if grid % 1000 == 0:
            out.append((f"pcapng-{tag}-tsresol3", ns.pcapng(pk, le=le, tsresol=3), False))
        if grid % 15625 == 0:
            for k in ([6, 10, 20, 30] if thorough else [rng.choice([6, 7, 10]), rng.choice([16, 20, 30])]):
                out.append((f"pcapng-{tag}-tsresol2^-{k}", ns.pcapng(pk, le=le, tsresol=0x80 | k), False))
        if keys:        # the secrets travel inside the container (no -s): DSB behind or in front of the interface description, among other blocks, any resolution
            out.append((f"pcapng-{tag}-dsb-behind-idb-junk", ns.pcapng(with_junk(rng, [("dsb", keys)] + list(pk), e, 2), le=le, tsresol=rng.choice([None, 9])), False, True))
            out.append((f"pcapng-{tag}-dsb-before-idb", ns.pcapng(pk, le=le, tsoffset=rng.choice([None, off]),
                                                                 pre_idb=[("raw",) + junk_block(rng, e, allow_idb=False)] * rng.randrange(0, 2) + [("dsb", keys)]), False, True))
        # several interfaces (dumpcap -i a -i b, mergecap): resolution and offset are options of each interface, and a packet's timestamp is in the units of its own
        res_ok = [None, 6, 9] + ([3] if grid % 1000 == 0 else []) + ([0x80 | 20, 0x80 | 6] if grid % 15625 == 0 else [])
        ifs = [(rng.choice(res_ok), rng.choice([None, None, off])) for _ in range(rng.choice([2, 2, 3]))]
        if len({i[0] or 6 for i in ifs}) == 1 and len({i[1] or 0 for i in ifs}) == 1:
            ifs[1] = (9 if (ifs[0][0] or 6) == 6 else None, ifs[1][1])          # at least two interfaces that differ
        how = rng.choice(["alternate", "by-direction", "second-half", "random"])
        pick = {"alternate": lambda n: n, "second-half": lambda n, m=len(pk): 0 if n < m // 2 else 1, "random": lambda n, s_=rng.randrange(1 << 30): (n * 2654435761 + s_) >> 7,
                "by-direction": lambda n: pk[n][2][6] if n < len(pk) else 0}[how]      # (by-direction: by a bit of the source MAC, i.e. one interface per sender)
        out.append((f"pcapng-{tag}-interfaces-{how}", ns.pcapng_multi(pk, ifs, pick, le=le, obsolete_pb=rng.random() < 0.3), False))
        out.append((f"pcapng-{tag}-interfaces-described-late", ns.pcapng_multi(pk, ifs, pick, le=le, late_idb=True), False))
        out.append((f"pcapng-{tag}-sections", ns.pcapng_multi(pk, ifs if rng.random() < 0.7 else ifs[:1], pick, le=le, sections=rng.choice([2, 3]), late_idb=rng.random() < 0.3), False))
        # an idle interface of another link type (tun0 = raw IP, 'any' = Linux cooked, loopback = BSD null) described first; the traffic is on the Ethernet interface behind it
        idle_lt = rng.choice([101, 113, 0, 276, 12])
        out.append((f"pcapng-{tag}-idle-first-interface", ns.pcapng_multi(pk, [(rng.choice([None, 9]), None), (rng.choice([None, 6]), None)], lambda n: 1, le=le,
                                                                        linktypes=[idle_lt, 1], late_idb=rng.random() < 0.3), False))
        out.append((f"pcap-legacy-{tag}-us", ns.pcap_legacy(pk, le=le), True))
        out.append((f"pcap-legacy-{tag}-ns", ns.pcap_legacy(pk, le=le, nano=True), True))
    return out


def build(tier, seed):
    thorough = tier == "thorough"
    cases = [{"id": f"scene-{i}", "i": i} for i in range(400 if thorough else 36)]
    real = corpus.tls_captures() + corpus.quic_captures(big=thorough)
    for name, path, _, _ in (real if thorough else real[::5]):          # the repository's real captures: same packets, every container
        cases.append({"id": f"real-{name}", "real": name})

    def evalfn(case):
        return eval_case(case, random.Random(engine.subseed("C12", seed, case["id"])), thorough)

    return dict(cases=cases, evalfn=evalfn, level="exploration", min_nontrivial=25,
                rule="per scene (1-3 TLS/QUIC connections + noise) 29-41 containers (incl. captures of 2-3 interfaces with their own resolution and offset, described at the top or just before their first packet, files of 2-3 sections, both orders of if_tsoffset/if_tsresol and unrelated SHB/IDB/EPB options) of the same packet list, timestamps on the grid all of them can represent "
                     "(1 us / 1 ms / 1/64 s). Class = (container kind, grid, outcome); non-trivial = the baseline exported packets and the container's output was compared byte for byte",
                assumptions=["every section of a file has the byte order of the first; dsb-less containers take the keys from the -s file"])


def eval_case(case, rng, thorough):
    if case.get("real"):
        name, path, keys, extra = next(c for c in corpus.tls_captures() + corpus.quic_captures(big=False) + corpus.quic_captures(big=True) if c[0] == case["real"])
        pk = [it for it in corpus.load(path) if it[0] == "pkt"]
        grid = 1
        return compare_containers(case, rng, thorough, pk, keys, extra, grid, {"cls": ["real", case["real"]], "sample": {"case": case["id"], "capture": os.path.basename(path), "packets": len(pk)}})
    n = rng.choice([1, 2, 3])
    flows = [gen.random_quic_flow(rng, i, napp=4) if rng.random() < 0.35 else gen.random_tls_flow(rng, i, nmax=5, min_records=1) for i in range(n)]
    if rng.random() < 0.4:
        flows.append(scene.udp_noise(rng, 3, 0))
    items = scene.merge(flows, rng, rng.choice(["random", "concat"]))
    grid = rng.choice([1, 1, 1000, 15625, 15625 * 64])
    scene.stamp(items, rng, rng.choice(["plain", "edge-low", "edge-high", "dense"]) if grid == 1 else "plain", grid=grid)
    keys = scene.keylog_text([f for f in flows if f.keylog], rng)
    pk = [("pkt", it.ts, it.frame) for it in items]
    out = {"cls": [grid, n], "sample": {"case": case["id"], "flows": [getattr(f, "label", "noise") for f in flows], "grid_us": grid, "first_ts": items[0].ts, "packets": len(items)}}
    return compare_containers(case, rng, thorough, pk, keys, [], grid, out)


def compare_containers(case, rng, thorough, pk, keys, extra, grid, out):
    base, files, argv = e2e.run_capture(ns.pcapng(pk), keys, extra)
    fail = e2e.run_failed(base)
    if fail:
        return dict(out, v="inconclusive" if fail.startswith("INCONCLUSIVE") else "violated", msg="baseline container: " + fail, files=files)
    ab = outparse.Analysis(base.out)
    bad, classes, units = [], set(), 0
    for label, cap, legacy, *dsbonly in containers(rng, pk, grid, thorough, keys):
        units += 1
        r, f2, a2 = e2e.run_capture(cap, None if dsbonly else keys, extra, legacy=legacy, no_keylog_opt=bool(dsbonly))
        kind = label
        fail = e2e.run_failed(r)
        if fail:
            if fail.startswith("INCONCLUSIVE"):
                continue
            bad.append((f"container {label}: {fail[:500]}", dict(f2, argv="\n".join(a2))))
            classes.add((kind, grid, "failed"))
            continue
        same = r.out == base.out
        classes.add((kind, grid, "same" if same else "differs"))
        if not same:
            a = outparse.Analysis(r.out)
            dts = [(x.ts, y.ts) for x, y in zip(a.pkts, ab.pkts) if x.ts != y.ts][:2]
            bad.append((f"container {label}: output differs from the pcapng/LE/us baseline ({len(a.pkts)} vs {len(ab.pkts)} packets; first differing timestamps {dts})",
                        dict(f2, argv="\n".join(a2), **{"out.pcapng": r.out, "out_baseline.pcapng": base.out})))
    out.update(units=units, classes=[list(c) for c in sorted(classes)], nontrivial=bool(ab.pkts) and units > 0, mon={"containers_compared": units},
               tags=sorted({f"container:{c[0].split('-')[0]}-{c[0].split('-')[1]}" for c in classes}))
    if bad:
        return dict(out, v="violated", msg=f"{len(bad)} of {units} containers; first: {bad[0][0]}", files=bad[0][1])
    return dict(out, v="held")
