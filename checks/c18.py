"""C18 - the export is a deterministic function of capture, secrets and options.

Oracle: SHA-256 of the output file.
  process boundary  `python -m tlexport.main` in fresh interpreters with PYTHONHASHSEED in {0,1,2,3,random...}, three working directories, varied environment
                    (TZ, LANG, COLUMNS, HOME, the interpreter's PYTHONOPTIMIZE / PYTHONUTF8 / PYTHONIOENCODING), repeated runs: all outputs of one (capture, secrets, options) must be byte-identical (fork() does not re-seed str/bytes
                    hashing, so hash-seed variation needs real processes);
  in-process        run() is called for capture A and then for capture B in the same process: B's output must equal B's output from a fresh process (nothing
                    processed by an earlier run may leak into a later one).
Captures are chosen to exercise hash-ordered containers: QUIC connections with several connection IDs per side (NEW_CONNECTION_ID), zero-length and 1-byte
CIDs, several connections sharing hosts, mixed with TLS.
"""
import hashlib
import random

from vlib import corpus, netsynth as ns, e2e, engine, gen, outparse, quicsynth, runner, scene, suites, tcpcap


def damage(items, flows, rng):
    """a capture as a lossy or hostile path leaves it: a few payloads of every connection are shortened records (length field adjusted, so the record is no whole
    number of cipher blocks any more), flipped or overwritten.  The export is whatever TLExport makes of it - it only has to be the same every time."""
    from checks.c03 import reframe
    idx = [i for i, it in enumerate(items) if it.tag == "quic" or (it.seg is not None and it.seg.payload)]
    picks = [(i, None) for i in rng.sample(idx, min(len(idx), rng.randrange(1, 2 + len(flows) * 2)))]
    for k, fl in enumerate(flows):       # and every TLS connection has one protected application record of the wrong size
        recs = [i for i in idx if items[i].conn == k and items[i].tag != "quic" and items[i].seg.payload[0] == 23 and (i, None) not in picks]
        if recs:
            picks.append((rng.choice(recs), rng.choice(["shorten-record", "junk-record"])))
    for i, forced in picks:
        it = items[i]
        kind = forced or rng.choice(["shorten-record", "shorten-record", "flip", "overwrite", "junk-record"])

        def mod(p, kind=kind):
            p = bytearray(p)
            if len(p) < 8:
                return bytes(p)
            whole = it.tag != "quic" and p[0] in (20, 21, 22, 23) and p[1] == 3 and 5 + int.from_bytes(p[3:5], "big") <= len(p)
            if kind == "shorten-record" and whole and int.from_bytes(p[3:5], "big") > 40:
                n = int.from_bytes(p[3:5], "big")
                k = rng.randrange(1, 16)
                return bytes(p[:3]) + (n - k).to_bytes(2, "big") + bytes(p[5:5 + n - k]) + bytes(p[5 + n:])
            if kind == "junk-record" and whole:
                n = int.from_bytes(p[3:5], "big")
                m = rng.choice([17, 33, 50, 95, 200, 1001])
                return bytes(p[:5 + n]) + bytes([23, 3, p[2]]) + m.to_bytes(2, "big") + rng.randbytes(m) + bytes(p[5 + n:])
            if kind == "overwrite":
                j = rng.randrange(len(p))
                p[j:j + 20] = rng.randbytes(len(p[j:j + 20]))
            else:
                p[rng.randrange(len(p))] ^= 1 << rng.randrange(8)
            return bytes(p)
        items[i] = reframe(it, flows[it.conn].ep, mod)


def make_scene(rng, damaged=False, other_port=None, tls13=False):
    """other_port: one more keyed TLS connection, to a server port that is neither a default nor (in the judged run) a selected one"""
    n = rng.choice([1, 2, 3, 4])
    eps = gen.distinct_eps(rng, n, rng.choice(["random", "same-client-host", "same-client-port"]))
    flows = []
    if other_port:
        flows.append(gen.random_tls_flow(random.Random(rng.random()), 9, ep=tcpcap.random_ep(random.Random(rng.random()), sport=other_port), nmax=4, min_records=1))
    if tls13:
        r2 = random.Random(rng.random())
        flows.append(gen.random_tls_flow(r2, 8, version=0x0304, code=r2.choice([0x1301, 0x1302, 0x1303, 0x1304]), nmax=4, min_records=1))
    for i, ep in enumerate(eps):
        if rng.random() < 0.6 and not (damaged and i == 0):
            s = quicsynth.random_qspec(rng, napp=rng.choice([4, 8]))
            s.c_scid_len = rng.choice([0, 1, 1, 8])
            s.s_scid_len = rng.choice([0, 1, 1, 8])
            if s.s_scid_len:
                s.new_cid_at = rng.randrange(len(s.app)) if s.app else -1
            if s.c_scid_len:
                s.client_new_cid_at = rng.randrange(len(s.app)) if s.app else -1
            if s.new_cid_at < 0 or not s.s_scid_len:
                s.new_cid_at = -1
            if not s.c_scid_len:
                s.client_new_cid_at = -1
            s.c_scid_len = rng.choice([4, 5, 8, 12]) if s.client_new_cid_at >= 0 else s.c_scid_len
            s.s_scid_len = rng.choice([4, 5, 8, 12]) if s.new_cid_at >= 0 else s.s_scid_len
            s.new_cid_prefix = rng.choice(["extend", "extend", "truncate", ""])
            qc = quicsynth.build_qconn(s, rng)
            fl = scene.quic_flow(qc, ep)
            fl.label = f"quic-{s.suite:04X}-cid{s.c_scid_len}/{s.s_scid_len}"
            flows.append(fl)
        else:
            kw = {}
            if damaged:
                kw["segkinds"] = ("records", "whole")
                if rng.random() < 0.6:       # block ciphers are the ones with a notion of a record of the wrong size
                    kw["version"], kw["code"] = rng.choice([(v, c) for v, c, _, p in suites.matrix() if p["mode"] == "CBC"])
            flows.append(gen.random_tls_flow(rng, i, ep=ep, nmax=5, min_records=1, **kw))
    items = scene.stamp(scene.merge(flows, rng, "random"), rng)
    if damaged:
        damage(items, flows, rng)
    keys = scene.keylog_text(flows, rng)
    LAST_DSB_CAPTURE[0] = ns.pcapng([("dsb", keys)] + [("pkt", it.ts, it.frame) for it in items])       # the same capture with its secrets embedded
    return flows, scene.capture(items), keys


LAST_DSB_CAPTURE = [None]


def sha(b):
    return None if b is None else hashlib.sha256(b).hexdigest()[:16]


def build(tier, seed):
    thorough = tier == "thorough"
    cases = [{"id": f"proc-{i}", "kind": "proc", "i": i} for i in range(60 if thorough else 12)]
    cases += [{"id": f"inproc-{i}", "kind": "inproc", "i": i} for i in range(1000 if thorough else 60)]
    real = corpus.quic_captures(big=thorough) + corpus.tls_captures()[::4]
    for name, path, _, _ in (real if thorough else real[1:8:2]):        # the repository's real captures (real QUIC stacks: many connection IDs per session)
        cases.append({"id": f"proc-real-{name}", "kind": "proc", "real": name})

    def evalfn(case):
        rng = random.Random(engine.subseed("C18", seed, case["id"]))
        return eval_proc(case, rng, thorough) if case["kind"] == "proc" else eval_inproc(case, rng)

    return dict(cases=cases, evalfn=evalfn, level="exploration", min_nontrivial=30,
                rule="process-boundary: per capture 12 (quick) / 26 (thorough) fresh interpreters over PYTHONHASHSEED x working directory x environment (TZ, locale, HOME, PYTHONOPTIMIZE 1/2, "
                     "UTF-8 mode, ASCII streams) x repetition; every second synthetic capture damaged (shortened/junk records, flipped and overwritten payloads); "
                     "in-process: pairs (A, B) of captures run back to back in one process vs. B alone. Captures: 1-4 connections, QUIC with zero-length/1-byte CIDs and "
                     "NEW_CONNECTION_ID on both sides, TLS mixed in, shared hosts. Class = (mode, variant, scene shape); non-trivial = the reference run exported packets "
                     "and the variant's digest was compared",
                assumptions=["the machine's python -m tlexport.main with PYTHONPATH=/repo is the program under test"])


class _Real:
    def __init__(self, label):
        self.label = label


def eval_proc(case, rng, thorough):
    if case.get("real"):
        name, path, keys, xo = next(c for c in corpus.tls_captures() + corpus.quic_captures(big=False) + corpus.quic_captures(big=True) if c[0] == case["real"])
        flows, cap = [_Real("real:" + name)], open(path, "rb").read()
        extra = xo + rng.choice([[], ["-a"], ["-m"]])
    else:
        flows, cap, keys = make_scene(rng, damaged=case["i"] % 2 == 1)
        extra = rng.choice([[], ["-a"], ["-m"], ["-c"]])
    files = {"in.pcapng": cap, "keys.log": keys}
    argv = ["-i", "{dir}/in.pcapng", "-o", "{dir}/out.pcapng", "-s", "{dir}/keys.log"] + extra
    variants = [("hashseed0", {"PYTHONHASHSEED": "0"}, None)]
    seeds = ["1", "2", "3"] + [str(rng.randrange(4, 1 << 31)) for _ in range(12 if thorough else 2)]
    for s in seeds:
        variants.append((f"hashseed{s}", {"PYTHONHASHSEED": s}, None))
    variants.append(("hashseed-random", {}, None))
    variants.append(("cwd-root", {"PYTHONHASHSEED": "5"}, "/"))
    variants.append(("cwd-shm+env", {"PYTHONHASHSEED": "6", "TZ": "Pacific/Kiritimati", "LANG": "tr_TR.UTF-8", "LC_ALL": "C", "COLUMNS": "20", "HOME": "/nonexistent"}, "/dev/shm"))
    # the interpreter's own switches are environment as well: optimised mode (asserts and docstrings compiled away), UTF-8 mode, unbuffered and ASCII-only standard streams
    variants.append(("env-pyopt", {"PYTHONHASHSEED": "9", "PYTHONOPTIMIZE": "1"}, None))
    variants.append(("env-pyopt2+utf8", {"PYTHONHASHSEED": "10", "PYTHONOPTIMIZE": "2", "PYTHONUTF8": "1", "PYTHONIOENCODING": "ascii", "PYTHONUNBUFFERED": "1"}, None))
    if thorough:
        variants.append(("repeat", {"PYTHONHASHSEED": "0"}, None))
        variants.append(("env-tz", {"PYTHONHASHSEED": "7", "TZ": "UTC-14"}, None))
    ref = None
    bad, classes, units = [], set(), 0
    variants.append(("output-path-exists", {"PYTHONHASHSEED": "8"}, None))
    for label, env, cwd in variants:
        f_run = files
        if label == "output-path-exists":
            # the -o path already holds a (longer) file - the export of an earlier run on a bigger capture: nothing of it may survive
            f_run = dict(files, **{"out.pcapng": (ref or b"") + rng.randbytes(rng.choice([1, 4096, 300000]))})
        r = runner.run_subprocess(f_run, argv, env=env, cwd=cwd)
        units += 1
        if r.status != "ok" or r.out is None:
            bad.append(f"variant {label}: process failed ({r.status}): {(r.stderr or b'').decode('utf8', 'replace')[-400:]}")
            classes.add(("proc", label.rstrip("0123456789"), "failed"))
            continue
        if ref is None:
            ref = r.out
            continue
        same = r.out == ref
        classes.add(("proc", label.rstrip("0123456789"), "same" if same else "differs"))
        if not same:
            a, b = outparse.Analysis(r.out), outparse.Analysis(ref)
            bad.append(f"variant {label} args {extra}: output digest {sha(r.out)} != {sha(ref)} of the reference process ({len(a.pkts)} vs {len(b.pkts)} packets)")
    an = outparse.Analysis(ref)
    out = {"cls": [case["id"]], "classes": [list(c) + [len(flows)] for c in sorted(classes)], "units": units, "nontrivial": bool(an.pkts), "mon": {"processes_run": units},
           "tags": ["mode:process"], "sample": {"case": case["id"], "flows": [f.label for f in flows], "args": extra, "variants": [v[0] for v in variants], "digest": sha(ref)}}
    if bad:
        return dict(out, v="violated", msg=f"flows {[f.label for f in flows]}: " + "; ".join(bad[:2]), files=files)
    return dict(out, v="held")


def eval_inproc(case, rng):
    # a quarter of the pairs: the earlier command selects a server port (and maps it) that the later one does not, and the later capture holds a keyed TLS connection to it
    port = rng.choice([8443, 4433, 9443, 1234]) if case["i"] % 4 == 0 else None
    fa, capa, keysa = make_scene(rng)
    fb, capb, keysb = make_scene(rng, other_port=port, tls13=case["i"] % 5 == 2)
    files = {"a.pcapng": capa, "a.log": keysa, "b.pcapng": capb, "b.log": keysb}
    ea = rng.choice([[], ["-a"], ["-m"], ["-p", "8443"]])
    eb = rng.choice([[], ["-a"], ["-m"]])
    if case["i"] % 5 == 2:
        ea = ea + rng.choice([["-d"], ["-d", "INFO"], ["-d", "DEBUG"]])       # the earlier command asked for logging; the later one does not (the level is process-wide state too)
        # ... and the later command's key log is incomplete (handshake secrets missing, or every third line): the paths that only log take part in its run
        kl = keysb.decode().split("\n")
        keysb = "\n".join([l for l in kl if "HANDSHAKE_TRAFFIC_SECRET" not in l] if rng.random() < 0.6 else [l for j, l in enumerate(kl) if j % 3]).encode() + b"\n"
        files["b.log"] = keysb
    if port:
        ea = rng.choice([["-p", str(port)], ["-p", str(port), "-m", f"{port}:9999"], ["-m", f"443:{port}", "-p", str(port), "8081"]])
    argv_a = ["-i", "{dir}/a.pcapng", "-o", "{dir}/outa.pcapng", "-s", "{dir}/a.log"] + ea
    argv_b = ["-i", "{dir}/b.pcapng", "-o", "{dir}/outb.pcapng", "-s", "{dir}/b.log"] + eb
    # a third of the pairs: the earlier run does not finish - capture cut inside a block, capture file missing, key-log file missing (exit())
    ends = case["i"] % 3 == 2 and rng.choice(["cut-capture", "no-capture", "no-keylog"])
    if ends == "cut-capture":
        files["a.pcapng"] = capa[:rng.randrange(max(29, len(capa) // 2), len(capa)) | 1]
    elif ends == "no-capture":
        argv_a[1] = "{dir}/missing.pcapng"
    elif ends == "no-keylog":
        argv_a[5] = "{dir}/missing.log"
    if case["i"] % 6 == 3 and not ends:
        # the very same command twice in one process, the secrets embedded in the capture (no -s): the second export is the first one again
        files["a.pcapng"] = files["b.pcapng"] = LAST_DSB_CAPTURE[0]
        argv_a = ["-i", "{dir}/a.pcapng", "-o", "{dir}/outa.pcapng"] + eb
        argv_b = ["-i", "{dir}/b.pcapng", "-o", "{dir}/outb.pcapng"] + eb
    samepath = None
    if case["i"] % 6 in (0, 5) and not ends and "-s" in argv_a:
        # the later command names its inputs exactly as the earlier one did, but the files are others: the key log (and capture) rewritten under the same path, or the same
        # relative names used from another working directory; half of them with key logs of exactly the same size (a comment line pads the shorter one)
        samepath = rng.choice(["rewritten", "rewritten", "other-cwd"])
        ka, kb = files["a.log"], files["b.log"]
        if rng.random() < 0.6:
            n = max(len(ka), len(kb)) + 3
            ka, kb = [k + (b"# " + b"-" * (n - len(k) - 3) + b"\n" if len(k) < n else b"") for k in (ka, kb)]
            files["a.log"], files["b.log"] = ka, kb
            samepath += "+same-size"
        if samepath.startswith("rewritten"):
            both_cap = rng.random() < 0.5
            pre_a = ["@cp:{dir}/a.log:{dir}/keys.log"] + (["@cp:{dir}/a.pcapng:{dir}/in.pcapng"] if both_cap else [])
            pre_b = ["@cp:{dir}/b.log:{dir}/keys.log"] + (["@cp:{dir}/b.pcapng:{dir}/in.pcapng"] if both_cap else [])
            argv_a = pre_a + ["-i", "{dir}/in.pcapng" if both_cap else "{dir}/a.pcapng", "-o", "{dir}/outa.pcapng", "-s", "{dir}/keys.log"] + ea
            argv_b = pre_b + ["-i", "{dir}/in.pcapng" if both_cap else "{dir}/b.pcapng", "-o", "{dir}/outb.pcapng", "-s", "{dir}/keys.log"] + eb
        else:
            files.update({"da_in.pcapng": files["a.pcapng"], "da_keys.log": files["a.log"], "db_in.pcapng": files["b.pcapng"], "db_keys.log": files["b.log"]})
            os_pre = lambda x: [f"@cp:{{dir}}/d{x}_in.pcapng:{{dir}}/d{x}/in.pcapng", f"@cp:{{dir}}/d{x}_keys.log:{{dir}}/d{x}/keys.log", f"@cd:{{dir}}/d{x}"]
            argv_a = os_pre("a") + ["-i", "in.pcapng", "-o", "{dir}/outa.pcapng", "-s", "keys.log"] + ea
            argv_b = os_pre("b") + ["-i", "in.pcapng", "-o", "{dir}/outb.pcapng", "-s", "keys.log"] + eb
            files["da/.keep"] = files["db/.keep"] = b""
    if case["i"] % 4 == 1 and not samepath:
        argv_a[3] = "{dir}/outb.pcapng"       # both runs write the same output path: the later export replaces the earlier (usually different, often longer) one
    solo = runner.run_tlexport(files, argv_b, outnames=("outb.pcapng",))
    both = runner.run_tlexport(files, [argv_a, argv_b], outnames=("outb.pcapng", "outa.pcapng"), earlier_may_fail=bool(ends))
    out = {"cls": ["inproc", len(fa), len(fb), "+".join(ea), "+".join(eb), ends or "completes", samepath or ""], "tags": ["mode:in-process"],
           "sample": {"case": case["id"], "A": [f.label for f in fa], "B": [f.label for f in fb], "args_A": ea, "args_B": eb, "earlier_run": ends or "completes", "same_input_paths": samepath}}
    if samepath:
        out["tags"].append("inproc:same-paths-" + samepath)
    fail = e2e.run_failed(solo)
    if fail:
        return dict(out, v="inconclusive" if fail.startswith("INCONCLUSIVE") else "violated", msg="B alone: " + fail, files=files)
    an = outparse.Analysis(solo.out)
    out["nontrivial"] = bool(an.pkts)
    out["mon"] = {"in_process_pairs": 1}
    if both.status != "ok" or both.outs[0] is None:
        return dict(out, v="violated", msg=f"run() for A then B in one process: second run failed ({both.status}): {(both.stderr or b'').decode('utf8', 'replace')[-600:]}", files=files)
    if both.outs[0] != solo.out:
        a = outparse.Analysis(both.outs[0])
        return dict(out, v="violated", msg=f"B exported after A in the same process has {len(a.pkts)} packets (digest {sha(both.outs[0])}), B alone {len(an.pkts)} (digest {sha(solo.out)}): "
                    f"state of the earlier run leaked into the later one", files=dict(files, **{"outb_after_a.pcapng": both.outs[0], "outb_alone.pcapng": solo.out}))
    return dict(out, v="held")
