"""C04 - concurrent connections are demultiplexed; each is exported as if it were alone.

Metamorphic oracle over schedules: N connections (TLS of any version/suite and QUIC, plus unrelated traffic) are merged packet by packet by an
order-preserving merge, timestamps are assigned after merging; the *solo* capture of connection k is the merged capture filtered to k (same
timestamps, same shuffled key log).  The exported packets (timestamp + frame bytes) of connection k in the merged run must equal the whole
output of its solo run, and the merged output must be exactly the union.  Ground truth is compared as well (a solo run that is itself wrong is
reported, because then 'as if it were alone' has no meaning).
"""
import random

from vlib import e2e, engine, gen, outparse, scene, tlssynth, suites, tcpcap

MERGES = ["roundrobin", "bursty", "random", "nested", "random"]


def build(tier, seed):
    thorough = tier == "thorough"
    cases = [{"id": f"scene-{i}", "i": i} for i in range(6000 if thorough else 70)]
    for i in range(3 if thorough else 1):
        cases.append({"id": f"soak-{i}", "i": i, "soak": True})
    for i in range(10 if thorough else 2):
        cases.insert(0, {"id": f"crowd-{i}", "i": i, "crowd": True})       # (slow ones first)

    def evalfn(case):
        rng = random.Random(engine.subseed("C04", seed, case["id"]))
        return eval_crowd(case, rng, thorough) if case.get("crowd") else eval_case(case, rng, thorough)

    def extra(results):
        return {"distinct_merge_orders": len({t for r in results for t in r.get("tags", []) if t.startswith("order:")}),
                "connections_compared": sum(r["mon"].get("connections_compared", 0) for r in results)}

    return dict(cases=cases, evalfn=evalfn, level="exploration", min_nontrivial=30, extra=extra,
                rule="scenes of 2..12 connections (soak: 60..200) x endpoint pattern {random, same client host/different ports, same client port to different servers, "
                     "same ports on different hosts, IPv4/IPv6 twins} x TLS and QUIC mixed (QUIC with zero-length and 1-byte CIDs; TLS <= 1.2 sessions resumed by later connections of the scene) x merge {round-robin, bursty, nested, "
                     "random} (crowd: 1-3 connections with 1 030..4 200 other clients' opening packets between two of their packets) x noise flows (HTTP on 443, TLS on an unselected port, non-QUIC UDP) x shuffled key log. Class = (n, pattern, merge, mix, noise); distinct "
                     "merge orders are counted by hashing the connection-index sequence; non-trivial = at least two connections exported data and were compared",
                assumptions=["timestamps are pairwise distinct per capture (the property's own proviso for QUIC datagrams)"])


def eval_case(case, rng, thorough):
    soak = case.get("soak")
    n = rng.randrange(60, 200 if thorough else 90) if soak else rng.choice([2, 2, 3, 4, 6, 8, 12])
    pattern = rng.choice(gen.EP_PATTERNS)
    eps = gen.distinct_eps(rng, n, pattern)
    mix = rng.choice(["tls", "quic", "mixed", "mixed"])
    flows = []
    # clients pick their source connection IDs independently: towards one server two of them may well pick the same short one (the address pair still tells them apart)
    shared_cid = rng.randbytes(rng.choice([1, 2, 4])) if pattern in ("same-server", "same-client-host", "small-pool") and rng.random() < 0.4 else None
    for i, ep in enumerate(eps):
        quic = mix == "quic" or (mix == "mixed" and rng.random() < 0.4)
        if quic:
            flows.append(gen.random_quic_flow(rng, i, ep=ep, napp=rng.choice([2, 4, 8]) if not soak else 3, c_scid=shared_cid if shared_cid and rng.random() < 0.7 else None))
        else:
            prev = [f for f in flows if f.kind == "tls" and f.conn.spec.version <= 0x0303 and f.conn.master is not None]
            resume = rng.choice(prev) if prev and rng.random() < 0.35 else None       # session resumption: same master secret, fresh randoms
            flows.append(gen.random_tls_flow(rng, i, ep=ep, nmax=6 if soak else 10, resume_of=resume, duplex=rng.random() < 0.3))
    noise = []
    if not soak and mix != "tls" and rng.random() < 0.35:
        # a QUIC connection on a port that is no TLS server port, and an unrelated plain TCP exchange between the same two hosts with the same port numbers (the TCP
        # and UDP port spaces are independent): the TCP flow is nobody's business and must not touch the QUIC connection
        ep2 = tcpcap.random_ep(rng, sport=rng.choice([4433, 8443, 784]), odd=0.0)
        flows.append(gen.random_quic_flow(rng, len(flows), ep=ep2, napp=rng.choice([2, 4])))
        segs2 = [tcpcap.Seg("c", 1, 1, 0x18, b"GET /twin HTTP/1.1\r\n\r\n" + rng.randbytes(rng.randrange(0, 50)), 0, 0), tcpcap.Seg("s", 1, 30, 0x18, b"HTTP/1.1 200 OK\r\n\r\n" + rng.randbytes(rng.randrange(0, 300)), 0, 1)]
        twin = scene.Flow("noise", ep2, [scene.Item(tcpcap.frame(ep2, s_), dir=s_.dir, seg=s_, tag="tcp-twin-of-quic") for s_ in segs2])
        twin.label = "tcp-twin"
        noise.append(twin)
    real = len(flows)
    if rng.random() < 0.5 and not soak:
        for k in range(rng.randrange(1, 4)):
            kind = rng.choice(["http", "other-port", "udp", "link"])
            if kind == "link":
                noise.append(scene.link_noise(rng, rng.randrange(1, 5), k))
            elif kind == "http":
                noise.append(scene.http_on_443(rng, k))
            elif kind == "other-port":
                c = tlssynth.build_conn(tlssynth.Spec(version=0x0303, suite=0xC02F, app=[("c", b"x" * 10)]), rng)
                noise.append(scene.tls_on_other_port(c, rng, k))
            else:
                noise.append(scene.udp_noise(rng, rng.randrange(1, 6), k))
    merge_mode = rng.choice(MERGES)
    items = scene.merge(flows + noise, rng, merge_mode)
    scene.stamp(items, rng, rng.choice(["plain", "dense", "edge-low", "zero"]))        # zero: a relative capture clock, the first packet of the capture is stamped 0
    xopts = rng.choice([[], [], ["-a"]]) if not soak else []                               # the same options for the merged and for every solo run
    order_hash = engine.subseed(tuple(it.conn for it in items)) & 0xFFFFFFFF
    keys = scene.keylog_text(flows + [f for f in noise if f.keylog], rng)
    res, files, argv = e2e.run_capture(scene.capture(items), keys, xopts, cpu=600 if soak else 60)
    out = {"cls": [min(n, 13), pattern, merge_mode, mix, "noise" if noise else "", "soak" if soak else "", "+".join(xopts)],
           "tags": [f"order:{order_hash:08x}", f"pattern:{pattern}", f"merge:{merge_mode}", f"mix:{mix}"],
           "sample": {"case": case["id"], "connections": [f.label + " " + f.ep.describe() for f in flows][:12], "noise": [f.items[0].tag for f in noise], "merge": merge_mode,
                      "packets": len(items), "interleaving_head": [it.conn for it in items][:60]}}
    fail = e2e.run_failed(res)
    if fail:
        return dict(out, v="inconclusive" if fail.startswith("INCONCLUSIVE") else "violated", msg="merged run: " + fail, files=files)
    an = outparse.Analysis(res.out)
    msgs = []
    total = 0
    exporting = 0
    step = max(1, real // 12) if soak else 1
    for k in range(0, real, step):
        fl = flows[k]
        solo_items = [it for it in items if it.conn == k]
        r2, f2, _ = e2e.run_capture(scene.capture(solo_items), keys, xopts)
        fail = e2e.run_failed(r2)
        if fail:
            if fail.startswith("INCONCLUSIVE"):
                return dict(out, v="inconclusive", msg=fail)
            msgs.append(f"solo run of connection {k} ({fl.label}): {fail}")
            break
        a2 = outparse.Analysis(r2.out)
        solo_pk = [(p.ts, p.raw) for p in a2.pkts]
        merged_pk = gen.flow_packets(an, fl)
        total += len(merged_pk)
        if merged_pk:
            exporting += 1
        if merged_pk != solo_pk:
            i = next((j for j in range(min(len(merged_pk), len(solo_pk))) if merged_pk[j] != solo_pk[j]), min(len(merged_pk), len(solo_pk)))
            msgs.append(f"connection {k} ({fl.label} {fl.ep.describe()}): {len(merged_pk)} packets in the merged export, {len(solo_pk)} when alone; first difference at packet {i}")
        m = gen.check_flow_exact(a2, fl) if not xopts else None       # (with -a the export also holds handshake bytes: only merged == solo is judged)
        if m:
            msgs.append("solo run is itself not exact: " + m[0])
    if not soak and total != len(an.pkts) + 0 and not msgs:
        msgs.append(f"merged output has {len(an.pkts)} packets, the connections' exports add up to {total}: the output is not the union of the per-connection outputs")
    out["mon"] = {"connections_compared": len(range(0, real, step)), "merged_output_packets": len(an.pkts)}
    out["nontrivial"] = exporting >= 2
    if msgs:
        return dict(out, v="violated", msg=f"{n} connections, {pattern}, merge {merge_mode}: " + "; ".join(msgs[:3]), files=dict(files, **{"out_merged.pcapng": res.out}))
    return dict(out, v="held")


def eval_crowd(case, rng, thorough):
    """A busy server: between two packets of the watched connections, more than a thousand other clients open connections to the same service (one ClientHello or
    junk payload each, never continued).  However many they are, each watched connection is exported as if it were alone."""
    nreal = rng.choice([1, 2, 3])
    eps = gen.distinct_eps(rng, nreal, rng.choice(["random", "same-server", "same-client-host"]))
    flows = []
    for i, ep in enumerate(eps):
        if rng.random() < 0.25:
            flows.append(gen.random_quic_flow(rng, i, ep=ep, napp=4))
        else:
            flows.append(gen.random_tls_flow(rng, i, ep=ep, nmax=8, min_records=3, segkinds=("mss", "records", "whole")))
    base = scene.merge(flows, rng, rng.choice(["random", "roundrobin", "concat"]))
    n = rng.choice([1030, 1100, 1500, 2100] + ([4200] if thorough else []))
    hello = next((f.conn.events[0].wire for f in flows if f.kind == "tls"), None)
    srv = eps[0]
    crowd = []
    seen = {(e.cip, e.cport) for e in eps}
    while len(crowd) < n:
        cip, cport = (srv.cip[:-2] + rng.randbytes(2)) if rng.random() < 0.5 else rng.randbytes(len(srv.cip)), rng.randrange(1024, 61000)
        if (cip, cport) in seen or cip == srv.sip:
            continue
        seen.add((cip, cport))
        ep = tcpcap.Endpoints(rng.randbytes(6), srv.smac, cip, srv.sip, cport, 443 if srv.sport not in (443, 44330) or rng.random() < 0.8 else srv.sport, rng.randrange(1 << 32), rng.randrange(1 << 32))
        if hello is not None and rng.random() < 0.7:
            pl = hello[:11] + rng.randbytes(32) + hello[43:]          # somebody else's ClientHello (own random, not in the key log)
        else:
            pl = rng.choice([b"GET / HTTP/1.1\r\n\r\n", rng.randbytes(rng.randrange(1, 60)), b"\x16\x03\x01\x00\x05hello"])
        sg = tcpcap.Seg("c", 1, 1, 0x18, pl, 0, 0)
        crowd.append(scene.Item(tcpcap.frame(ep, sg), conn=1000 + len(crowd), dir="c", seg=sg, tag="crowd"))
    # where the crowd arrives: behind a random packet of the scene (mostly mid-connection), in one or two waves
    k = rng.randrange(1, len(base)) if len(base) > 1 else 1
    if rng.random() < 0.3 and len(base) > 2:
        k2 = rng.randrange(k, len(base))
        h = rng.randrange(1, n)
        items = base[:k] + crowd[:h] + base[k:k2] + crowd[h:] + base[k2:]
    else:
        items = base[:k] + crowd + base[k:]
    scene.stamp(items, rng, rng.choice(["plain", "dense"]))
    keys = scene.keylog_text(flows, rng)
    res, files, argv = e2e.run_capture(scene.capture(items), keys, [], cpu=900)
    out = {"cls": ["crowd", nreal, n // 1000, "+".join(sorted({f.kind for f in flows}))], "tags": ["pattern:crowd", f"order:{engine.subseed(tuple(it.conn for it in items)) & 0xFFFFFFFF:08x}"],
           "sample": {"case": case["id"], "connections": [f.label + " " + f.ep.describe() for f in flows], "other_clients": n, "arrive_after_packet": k, "packets": len(items)}}
    fail = e2e.run_failed(res)
    if fail:
        return dict(out, v="inconclusive" if fail.startswith("INCONCLUSIVE") else "violated", msg="merged run: " + fail, files=files)
    an = outparse.Analysis(res.out)
    msgs, exporting = [], 0
    for kf, fl in enumerate(flows):
        r2, f2, _ = e2e.run_capture(scene.capture([it for it in items if it.conn == kf]), keys, [])
        fail = e2e.run_failed(r2)
        if fail:
            return dict(out, v="inconclusive", msg="solo run: " + fail)
        solo_pk = [(p.ts, p.raw) for p in outparse.Analysis(r2.out).pkts]
        merged_pk = gen.flow_packets(an, fl)
        exporting += bool(merged_pk)
        if merged_pk != solo_pk:
            msgs.append(f"connection {kf} ({fl.label} {fl.ep.describe()}): {len(merged_pk)} packets exported with {n} other clients' packets in between, {len(solo_pk)} when alone")
        m = gen.check_flow_exact(an, fl)
        if m and not msgs:
            msgs.append(m[0])
    out["mon"] = {"connections_compared": len(flows), "merged_output_packets": len(an.pkts), "crowd_flows": n}
    out["nontrivial"] = exporting >= 1
    if msgs:
        return dict(out, v="violated", msg=f"{nreal} connections and a crowd of {n}: " + "; ".join(msgs[:3]), files=dict(files, **{"out_merged.pcapng": res.out}))
    return dict(out, v="held")
