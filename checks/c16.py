"""C16 - QUIC packet numbers are reconstructed as RFC 9000 Appendix A.3 defines, per packet-number space and direction.

Oracle: integer-only transcription of the RFC pseudo-code (`rfc_decode`).  Monitors:
  direct   a real QuicSession object; its per-space `largest` state is set through the real state dictionaries, stub packets carry
           (type, direction, truncated bytes); the value returned by the real get_full_packet_number (what the session uses as AEAD
           nonce) must equal rfc_decode(largest, truncated, 8*len) and the space's largest must become max(largest, result); the five
           other spaces must be untouched.
  history  a fresh session is driven through histories of packets with gaps and bounded reordering in all six spaces, interleaved; a
           shadow of `largest` per space is kept by the monitor; every result is compared with the RFC value and the sender's true number.
  e2e      (in C02's runs as well) the same monitor wraps get_full_packet_number inside real end-to-end runs.
"""
import logging
import random

from vlib import e2e, engine, monitors, netsynth as ns, quicsynth, scene, tcpcap


def rfc_decode(largest, truncated, nbits):
    expected = largest + 1
    win = 1 << nbits
    hwin = win // 2
    mask = win - 1
    cand = (expected & ~mask) | truncated
    if cand <= expected - hwin and cand < (1 << 62) - win:
        return cand + win
    if cand > expected + hwin and cand >= win:
        return cand - win
    return cand


def make_session():
    from tlexport.packet import Packet
    from tlexport.quic.quic_session import QuicSession
    udp = ns.udp_datagram(bytes([10, 0, 0, 1]), bytes([10, 0, 0, 2]), 40000, 443, b"\xc0" + bytes(30))
    fr = ns.eth_frame(b"\x02" * 6, b"\x04" * 6, ns.ip_packet(bytes([10, 0, 0, 1]), bytes([10, 0, 0, 2]), 17, udp))
    return QuicSession(Packet(fr, 1.0), [443], [], {})


def spaces():
    from tlexport.quic.quic_packet import QuicPacketType as T
    return [(T.INITIAL, "long"), (T.HANDSHAKE, "long"), (T.RTT_O, "long"), (T.RTT_1, "short")]


def stub(ptype, kind, isserver, pnbytes):
    from tlexport.quic.quic_packet import LongQuicPacket, ShortQuicPacket
    if kind == "short":
        return ShortQuicPacket(packet_type=ptype, key_phase=0, dcid=b"", packet_num=pnbytes, payload=b"", isserver=isserver, first_byte=b"\x40", ts=0.0)
    return LongQuicPacket(packet_type=ptype, version=b"\x00\x00\x00\x01", dcid_len=b"\x00", dcid=b"", scid_len=b"\x00", scid=b"", first_byte=b"\xc0",
                          ts=0.0, packet_len=b"\x00", packet_len_bytes=b"\x00", packet_num=pnbytes, payload=b"", isserver=isserver)


def state_dicts(sess):
    return {True: sess.packet_number_server, False: sess.packet_number_client}


def space_key(sess, ptype, isserver):
    """the key of the real state dictionary a packet type belongs to (0-RTT and 1-RTT share one space, RFC 9000 12.3)"""
    for k in state_dicts(sess)[isserver]:
        if ptype in k:
            return k
    raise KeyError(ptype)


def largest_values(rng, thorough):
    vals = {0, 1, 2, 3, 127, 128, 129, 255, 256, 257}
    for k in range(7, 63):
        for d in (-2, -1, 0, 1, 2):
            v = (1 << k) + d
            if 0 <= v < (1 << 62) - 1:
                vals.add(v)
    for _ in range(400 if thorough else 60):
        vals.add(rng.randrange(0, 1 << rng.randrange(1, 62)))
    vals.add((1 << 62) - 2)
    return sorted(vals)


def truncated_values(rng, largest, nbits, thorough):
    win = 1 << nbits
    mask = win - 1
    hw = win // 2
    exp = largest + 1
    out = set()
    for base in (0, hw, win, exp, exp - hw, exp + hw, exp - win, exp + win):
        for d in range(-3, 4):
            out.add((base + d) & mask)
    for _ in range(24 if thorough else 6):
        out.add(rng.randrange(0, win))
    return sorted(out)


def build(tier, seed):
    thorough = tier == "thorough"
    cases = []
    for isserver in (False, True):
        for si in range(4):
            for ln in (1, 2, 3, 4):
                for part in range(8 if thorough else 1):
                    cases.append({"id": f"direct-{'s' if isserver else 'c'}-sp{si}-len{ln}-p{part}", "kind": "direct", "isserver": isserver, "space": si, "len": ln, "part": part})
    for i in range(4000 if thorough else 32):
        cases.append({"id": f"history-{i}", "kind": "history", "i": i})
    for i in range(40000 if thorough else 240):
        cases.append({"id": f"e2e-{i}", "kind": "e2e", "i": i})

    def evalfn(case):
        logging.disable(logging.CRITICAL)
        rng = random.Random(engine.subseed("C16", seed, case["id"]))
        if case["kind"] == "e2e":
            return eval_e2e(case, rng)
        # the direct parts reach into the session's per-space state; if a refactoring moved it, they are unavailable (inconclusive) and the
        # end-to-end part decides alone - an exception raised by the function under test itself is still a violation (caught where it is called)
        try:
            sess = make_session()
            for pt, kd in spaces():
                for srv in (False, True):
                    space_key(sess, pt, srv)
            probe = sess.get_full_packet_number(stub(spaces()[0][0], "long", False, b"\x00"))
            bytes(probe)
        except Exception as e:
            return {"v": "inconclusive", "nontrivial": False, "cls": ["direct-unavailable"], "units": 0, "tags": ["direct-unavailable"],
                    "msg": f"direct observation point unavailable (internal layout changed?): {e!r}"}
        if case["kind"] == "direct":
            return eval_direct(case, rng, thorough)
        return eval_history(case, rng, thorough)

    return dict(cases=cases, evalfn=evalfn, level="exploration", min_nontrivial=10,
                rule="direct: for each direction x packet type x encoded length 1..4: largest in {0..3, 2^k+-2 for k=7..61, random}, truncated "
                     "exhaustively within +-3 of 0, half window, window, expected, expected+-half window, expected+-window, plus random; history: "
                     "random histories with gaps and bounded reordering in six spaces interleaved; e2e: real runs on generated connections (Retry, 0-RTT, coalescing, packet-number starts "
                     "up to 2^31, gaps, every encoded length) with the monitor on get_full_packet_number comparing every reconstructed number with the sender's true one - this "
                     "covers what happens to the per-space state at connection events (Retry, key change, CID switch). A class is (direction, space, length, "
                     "bit length of largest, RFC branch taken); non-trivial = the real function returned and was compared",
                assumptions=["rfc_decode is a faithful integer transcription of RFC 9000 A.3", "`largest` state of a space is reachable as "
                             "QuicSession.packet_number_server/client (anchors.state of the property)"])


_DEC = {}


def nonce_use(got_bytes, want, isserver, rng):
    """-> message or None: a payload protected under the RFC nonce must come out of the real QuicDecryptor when it is given the reconstructed number"""
    from cryptography.hazmat.primitives.ciphers.aead import AESCCM, AESGCM, ChaCha20Poly1305
    if _DEC.get("unavailable"):
        return None
    name, cls, klen = rng.choice([("aes128gcm", AESGCM, 16), ("aes256gcm", AESGCM, 32), ("chacha20", ChaCha20Poly1305, 32), ("aes128ccm", AESCCM, 16)])
    if name not in _DEC:
        r = random.Random(name)
        keys = [r.randbytes(klen), r.randbytes(12), r.randbytes(klen), r.randbytes(12)]
        try:
            from tlexport.quic.quic_decryptor import QuicDecryptor
            _DEC[name] = (keys, QuicDecryptor(keys, cls, False), cls)
        except (ImportError, AttributeError, TypeError):      # the class moved or is built differently (refactoring): this observation point is gone, the end-to-end part decides
            _DEC["unavailable"] = True
            return None
    keys, dec, cls = _DEC[name]
    key, iv = (keys[0], keys[1]) if isserver else (keys[2], keys[3])
    nonce = (int.from_bytes(iv, "big") ^ want).to_bytes(12, "big")
    plain, aad = rng.randbytes(rng.randrange(1, 40)), rng.randbytes(rng.randrange(1, 30))
    ct = cls(key).encrypt(nonce, plain, aad)
    try:
        out = dec.decrypt(ct, got_bytes, aad, isserver)
    except (AttributeError, TypeError):
        _DEC["unavailable"] = True
        return None
    except Exception as e:
        return f"packet number {want} ({name}): the real decryptor, given the reconstructed number, fails on a payload protected under the RFC 9001 nonce: {e!r}"
    if bytes(out) != plain:
        return f"packet number {want} ({name}): decrypted payload differs"
    return None


def eval_direct(case, rng, thorough):
    sess = make_session()
    ptype, kind = spaces()[case["space"]]
    isserver, ln = case["isserver"], case["len"]
    key = space_key(sess, ptype, isserver)
    d = state_dicts(sess)
    bad, classes, units = [], set(), 0
    nonce_checks = [0]
    for largest in largest_values(rng, thorough):
        for tr in truncated_values(rng, largest, 8 * ln, thorough):
            for dd in d.values():
                for k in dd:
                    dd[k] = 7777 if (dd is not d[isserver] or k != key) else largest
            want = rfc_decode(largest, tr, 8 * ln)
            units += 1
            try:
                got = sess.get_full_packet_number(stub(ptype, kind, isserver, tr.to_bytes(ln, "big")))
                got_i = int.from_bytes(bytes(got), "big")
            except Exception as e:
                bad.append(f"largest={largest} truncated={tr:#x} len={ln}: raised {e!r} (RFC value {want})")
                continue
            branch = "up" if want > ((largest + 1) & ~((1 << 8 * ln) - 1) | tr) else "down" if want < ((largest + 1) & ~((1 << 8 * ln) - 1) | tr) else "same"
            classes.add((case["id"][:12], ln, largest.bit_length(), branch))
            if got_i != want:
                bad.append(f"largest={largest} truncated={tr:#x} len={ln}: reconstructed {got_i}, RFC 9000 A.3 gives {want}")
                continue
            if d[isserver][key] != max(largest, want):
                bad.append(f"largest={largest} truncated={tr:#x} len={ln}: largest became {d[isserver][key]}, expected {max(largest, want)}")
            if units % 40 == 0 or (want >= 1 << 32 and units % 4 == 0):
                # "... and uses as AEAD nonce": what the function returned is handed to the real QuicDecryptor exactly as the session does it; the ciphertext was
                # produced under nonce = iv XOR (RFC packet number as 96-bit big-endian integer), RFC 9001 5.3
                nonce_checks[0] += 1
                m = nonce_use(got, want, isserver, rng)
                if m:
                    bad.append(f"largest={largest} truncated={tr:#x} len={ln}: {m}")
            others = [v for dd in d.values() for k, v in dd.items() if not (dd is d[isserver] and k == key)]
            if any(v != 7777 for v in others):
                bad.append(f"largest={largest} truncated={tr:#x}: another packet-number space was modified: {others}")
    res = {"units": units, "classes": sorted(classes), "cls": [case["id"]], "nontrivial": units > 0, "mon": {"get_full_packet_number.compared": units, "nonce_use.compared": nonce_checks[0]},
           "tags": [f"direct:len{ln}"], "sample": {"case": case["id"], "calls": units, "example": {"largest": 1 << 40, "truncated": 5, "len": ln, "rfc": rfc_decode(1 << 40, 5, 8 * ln)}}}
    if bad:
        res.update(v="violated", msg=f"{len(bad)} disagreement(s); first: {bad[0]}")
    else:
        res["v"] = "held"
    return res


def eval_history(case, rng, thorough):
    sess = make_session()
    sp = [(pt, kd, srv) for pt, kd in spaces() for srv in (False, True)]
    d = state_dicts(sess)
    # per state-space shadow: largest seen (None before the first packet), next number to send
    shadow = {}
    nxt = {}
    bad, classes, units = [], set(), 0
    pending = {}
    for step in range(rng.randrange(50, 400 if thorough else 200)):
        pt, kd, srv = rng.choice(sp)
        key = (srv, space_key(sess, pt, srv))
        if key not in nxt:
            nxt[key] = rng.choice([0, 0, 1, rng.randrange(0, 1 << 20), rng.randrange(0, 1 << 31)])
        # sender: next pn with a gap; sometimes deliver an older pending packet (bounded reordering)
        if pending.get(key) and rng.random() < 0.3:
            pn = pending[key].pop(rng.randrange(len(pending[key])))
        else:
            pn = nxt[key] + rng.choice([0, 0, 0, 1, 2, 7, 100, 40000])
            nxt[key] = pn + 1
            if rng.random() < 0.15:
                pending.setdefault(key, []).append(pn)
                if len(pending[key]) > 3:
                    pending[key].pop(0)
                pn = nxt[key]
                nxt[key] = pn + 1
        largest = shadow.get(key)
        base = -1 if largest is None else largest
        # RFC 9000 17.1: encode with enough bits that the receiver's window (around largest+1) contains pn
        need = 1
        while not (abs(pn - (base + 1)) < (1 << (8 * need - 1)) - 1):
            need += 1
        if need > 4:
            continue
        ln = rng.randrange(need, 5)
        tr = pn & ((1 << 8 * ln) - 1)
        want = rfc_decode(0 if largest is None else largest, tr, 8 * ln)
        units += 1
        try:
            got = int.from_bytes(bytes(sess.get_full_packet_number(stub(pt, kd, srv, tr.to_bytes(ln, "big")))), "big")
        except Exception as e:
            bad.append(f"step {step}: raised {e!r}")
            break
        if got != want or got != pn:
            bad.append(f"step {step} space={key[1]} server={srv}: largest={largest} pn sent={pn} encoded in {ln} bytes -> reconstructed {got}, RFC {want}")
            break
        shadow[key] = pn if largest is None else max(largest, pn)
        classes.add(("hist", ln, "reordered" if largest is not None and pn < largest else "fwd", pn.bit_length() // 8))
        real = d[srv][key[1]]
        if real != shadow[key]:
            bad.append(f"step {step}: session's largest for {key} is {real}, shadow says {shadow[key]}")
            break
    res = {"units": units, "classes": sorted(classes, key=repr), "cls": [case["id"]], "nontrivial": units > 10, "mon": {"get_full_packet_number.compared": units},
           "tags": ["history"], "sample": {"case": case["id"], "packets": units, "spaces_used": len(shadow)}}
    if bad:
        res.update(v="violated", msg=bad[0])
    else:
        res["v"] = "held"
    return res


def eval_e2e(case, rng):
    """the session's own history of packet-number spaces in a real run: connection events (Retry, coalesced packets of three spaces in one datagram, 0-RTT before
    1-RTT in the same space, CID switch, key update) must leave the per-space 'largest' exactly as RFC 9000 12.3 / 17.2.5.3 say"""
    s = quicsynth.random_qspec(rng, napp=rng.choice([2, 5, 9]))
    s.retry = rng.random() < 0.5
    s.pn_len_mode = rng.choice(["min", "min", "rand"])
    for d in "cs":
        for sp_ in ("init", "hs", "app"):
            if rng.random() < 0.6:
                s.pn_start[(d, sp_)] = rng.choice([255, 256, 300, 65535, 65536, 70000, 1 << 24, (1 << 24) + 77, 827801342, (1 << 31) - 9, rng.randrange(256, 1 << 31)])
    qc = quicsynth.build_qconn(s, rng)
    ep = tcpcap.random_ep(rng)
    fl = scene.quic_flow(qc, ep)
    items = scene.stamp(scene.merge([fl], rng, "concat"), rng)
    mon = monitors.QuicMonitor()
    res, files, argv = e2e.run_capture(scene.capture(items), scene.keylog_text([fl], rng), child_setup=mon.install)
    out = {"cls": ["e2e", "retry" if s.retry else "", s.pn_len_mode, "0rtt" if s.zero_rtt else "", min(max(s.pn_start.values(), default=0).bit_length() // 8, 4)],
           "tags": ["e2e:retry" if s.retry else "e2e:noretry"], "sample": {"case": case["id"], "spec": quicsynth.describe(s)}}
    fail = e2e.run_failed(res)
    if fail:
        return dict(out, v="inconclusive" if fail.startswith("INCONCLUSIVE") else "violated", msg=fail, files=files)
    msgs, cnt = mon.verdict(res.events, qc)
    if cnt.get("quic.monitor_unavailable"):
        # the hook point moved: fall back to the indirect observation - every packet decrypts only with the right nonce, so an exact export
        # means every packet number was reconstructed correctly
        from vlib import outparse
        from checks.c02 import check_quic_output
        m2, _ = check_quic_output(outparse.Analysis(res.out), qc, ep)
        out["tags"].append("e2e:indirect")
        out["nontrivial"] = bool(qc.expect)
        if m2:
            return dict(out, v="inconclusive", msg="packet-number monitor unavailable and the export is not exact (C02 decides): " + m2[0][:200], nontrivial=False)
        return dict(out, v="held", mon={"get_full_packet_number.indirect_runs": 1})
    msgs = [m for m in msgs if "packet number" in m or "looked at" in m]
    out["mon"] = {"get_full_packet_number.compared": cnt.get("quic.pn_compared", 0)}
    out["units"] = max(1, cnt.get("quic.pn_compared", 0))
    out["nontrivial"] = cnt.get("quic.pn_compared", 0) > 3
    if msgs:
        return dict(out, v="violated", msg=("Retry; " if s.retry else "") + "; ".join(msgs[:2]), files=files)
    if cnt.get("quic.pn_compared", 0) == 0:
        return dict(out, v="inconclusive", msg="the packet-number monitor observed nothing", nontrivial=False)
    return dict(out, v="held")
