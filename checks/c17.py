"""C17 - QUIC frames are parsed exactly; arbitrary bytes cannot hang the parser.

Monitors on the real `tlexport.quic.quic_frame.parse_frames`:
  (1) well-formed sequences from the harness's encoders (all RFC 9000/9221 types, varint widths 1/2/4/8 incl. non-minimal,
      every STREAM flag combination, LEN-less frames last): frame kinds, lengths and fields must equal the encoder's ground truth
      and the lengths must add up to the payload length (every byte accounted for exactly once);
  (2) arbitrary bytes (all strings of length <= 2, first x second byte x tails, random strings, mutations of valid payloads):
      the call must return or raise within a *logical* step bound (statement executions counted by sys.monitoring), every frame
      must consume >= 1 byte, and no data field may contain bytes that are not in the packet at that place.
"""
import logging
import random

from vlib import engine, qframes, stepmon

DATA_FIELDS = ("stream_data", "crypto", "token", "payload", "data", "connection_id", "reason_phrase", "stateless_reset_token")


class Src:
    isserver = False
    packet_num = b"\x00"
    ts = 0.0


def step_limit(n):
    return 400 + 160 * n


def compare(frames, truths, payload):
    """-> message or None"""
    truths = qframes.normalise(truths)
    if len(frames) != len(truths):
        return f"{len(truths)} frames sent, {len(frames)} parsed: {[type(f).__name__ for f in frames][:12]}"
    tot = 0
    for i, (f, t) in enumerate(zip(frames, truths)):
        ft = f.frame_type
        kind = qframes.KIND_OF_TYPE.get(ft)
        if kind != t["kind"]:
            return f"frame {i}: sent {t['kind']}, parsed type {ft!r} ({type(f).__name__})"
        if "type" in t and ft != t["type"]:
            return f"frame {i}: type byte {t['type']:#x} parsed as {ft:#x}"
        if f.length != t["_len"]:
            return f"frame {i} ({kind}): length {f.length}, encoded length {t['_len']}"
        tot += f.length
        for k, v in t.items():
            if k in ("kind", "type", "_len", "n", "explicit_len"):
                continue
            if k == "ecn":
                if v is not None and [f.ect_0_count, f.ect_1_count, f.ect_ce_count] != v:
                    return f"frame {i} (ACK): ECN counts {[f.ect_0_count, f.ect_1_count, f.ect_ce_count]} != {v}"
                continue
            got = getattr(f, k, UNOBSERVABLE)
            if got is UNOBSERVABLE:         # the frame object has no attribute of this name (renamed by a refactoring, or no longer kept): this field cannot be observed
                UNOBSERVED[(kind, k)] = UNOBSERVED.get((kind, k), 0) + 1
                continue
            if k == "ack_ranges":
                got = [list(x) for x in got]
            if isinstance(v, (bytes, bytearray)):
                if bytes(got) != bytes(v):
                    return f"frame {i} ({kind}): field {k} = {bytes(got)[:24].hex()}.. ({len(got)}B), sent {bytes(v)[:24].hex()}.. ({len(v)}B)"
            elif got != v:
                return f"frame {i} ({kind}): field {k} = {got!r}, sent {v!r}"
    if tot != len(payload):
        return f"frame lengths add up to {tot}, payload has {len(payload)} bytes"
    return None


UNOBSERVABLE = object()
UNOBSERVED = {}


def check_arbitrary(frames, payload):
    start = 0
    n = len(payload)
    for i, f in enumerate(frames):
        ln = f.length
        if not isinstance(ln, int) or ln < 1:
            return f"frame {i} ({type(f).__name__}) has length {ln!r}: no byte consumed"
        if start >= n:
            return f"frame {i} ({type(f).__name__}) starts at offset {start} beyond the {n}-byte packet"
        region = payload[start:]
        for k in DATA_FIELDS:
            v = getattr(f, k, None)
            if isinstance(v, (bytes, bytearray)) and len(v):
                if len(v) > len(region) or bytes(v) not in region:
                    return f"frame {i} ({type(f).__name__}) field {k} ({len(v)}B) is not contained in the packet bytes from offset {start} ({len(region)}B left)"
        start += ln
    if frames and start < n:
        return f"parser returned with {n - start} payload bytes unaccounted for"
    return None


def gen_wellformed(rng, policy, nfr):
    w = qframes.W(rng, policy)
    parts, truths = [], []
    for j in range(nfr):
        last = j == nfr - 1
        b, t = qframes.random_frame(rng, w, last=last, big_ack=True)
        # a PADDING run directly followed by another keeps merging; fine (normalise)
        t["_len"] = len(b)
        parts.append(b)
        truths.append(t)
    # merged PADDING lengths
    out = []
    for t in truths:
        if t["kind"] == "PADDING" and out and out[-1]["kind"] == "PADDING":
            out[-1]["_len"] += t["_len"]
            out[-1]["n"] += t["n"]
        else:
            out.append(t)
    return b"".join(parts), out


def mutate(rng, b):
    b = bytearray(b)
    if not b:
        return bytes(b)
    r = rng.random()
    if r < 0.3:
        i = rng.randrange(len(b))
        b[i] ^= 1 << rng.randrange(8)
    elif r < 0.5:
        del b[rng.randrange(len(b)):]
    elif r < 0.7:
        i = rng.randrange(len(b))
        b[i:i] = rng.randbytes(rng.randrange(1, 4))
    elif r < 0.85:
        i = rng.randrange(len(b))
        b[i] = rng.choice([0, 0x3f, 0x40, 0x7f, 0x80, 0xbf, 0xc0, 0xff])
    else:
        i = rng.randrange(len(b))
        del b[i:i + rng.randrange(1, 4)]
    return bytes(b)


def build(tier, seed):
    thorough = tier == "thorough"
    cases = []
    nwf = 4000 if thorough else 40
    for i in range(nwf):
        cases.append({"id": f"wf-{i}", "kind": "wf", "n": 4000 if thorough else 1500, "i": i})
    for hi in range(0, 256, 16):
        cases.append({"id": f"short-{hi:02x}", "kind": "short", "lo": hi, "hi": hi + 16})
    nrnd = 3000 if thorough else 32
    for i in range(nrnd):
        cases.append({"id": f"rand-{i}", "kind": "rand", "n": 6000 if thorough else 1500, "i": i})
    for i in range(nrnd):
        cases.append({"id": f"mut-{i}", "kind": "mut", "n": 4000 if thorough else 1200, "i": i})

    def evalfn(case):
        logging.disable(logging.CRITICAL)
        from tlexport.quic import quic_frame
        sm = stepmon.StepMonitor()
        sm.install()
        try:
            return _eval(case, quic_frame.parse_frames, sm, seed)
        finally:
            sm.uninstall()

    return dict(cases=cases, evalfn=evalfn, level="exploration", min_nontrivial=200,
                rule="well-formed: random frame sequences (1..12 frames, all 21 frame kinds, varint policy min/random/forced 2,4,8) compared "
                     "field by field with the encoder's ground truth; arbitrary: all byte strings of length <= 2, (first,second) x sampled tails, "
                     "random strings up to 1500 bytes, mutations of valid payloads, under a statement-count bound. A class is "
                     "(mode, sorted frame kinds | first byte, outcome); non-trivial = parse_frames was entered and the oracle evaluated",
                assumptions=["harness frame encoders follow RFC 9000 sec. 19 / RFC 9221", "step bound 400+160*len(payload) statements is far "
                             "above what a terminating parse needs (measured maximum is reported in the evidence)"],
                extra=lambda results: {"max_steps_per_byte_observed": max((r["mon"].get("max_steps_x100_per_byte", 0) for r in results), default=0) / 100})


def _eval(case, parse_frames, sm, seed):
    UNOBSERVED.clear()
    rng = random.Random(engine.subseed("C17", seed, case["id"]))
    bad = []
    classes = set()
    units = 0
    maxratio = 0.0
    outcomes = {}

    def run(payload):
        nonlocal units, maxratio
        units += 1
        steps, frames, exc = sm.call(step_limit(len(payload)), parse_frames, payload, Src())
        maxratio = max(maxratio, steps / (len(payload) + 1))
        return steps, frames, exc

    if case["kind"] == "wf":
        for j in range(case["n"]):
            policy = rng.choice(["min", "min", "rand", "rand", 2, 4, 8])
            nfr = rng.choice([1, 1, 2, 3, 5, 8, 12])
            payload, truths = gen_wellformed(rng, policy, nfr)
            steps, frames, exc = run(payload)
            kinds = sorted({t["kind"] for t in truths})
            if isinstance(exc, stepmon.StepBound):
                bad.append((payload, f"well-formed payload: parser did not terminate within the step bound: {exc}"))
                continue
            if exc is not None:
                bad.append((payload, f"well-formed payload {kinds}: parser raised {exc!r}"))
                continue
            m = compare(frames, truths, payload)
            if m:
                bad.append((payload, f"well-formed payload (varints {policy}): {m}"))
            classes.add(("wf", str(policy), ",".join(kinds)))
    else:
        def payloads():
            if case["kind"] == "short":
                if case["lo"] == 0:
                    yield b""
                for a in range(case["lo"], case["hi"]):
                    yield bytes([a])
                    for b in range(256):
                        yield bytes([a, b])
                        if b % 8 == a % 8:
                            for _ in range(3):
                                yield bytes([a, b]) + rng.randbytes(rng.randrange(1, 7))
            elif case["kind"] == "rand":
                for _ in range(case["n"]):
                    r = rng.random()
                    n = rng.randrange(3, 40) if r < 0.6 else rng.randrange(40, 1501)
                    p = bytearray(rng.randbytes(n))
                    if rng.random() < 0.7:   # bias the first byte to defined frame types
                        p[0] = rng.choice(list(qframes.KIND_OF_TYPE))
                    if rng.random() < 0.3:   # zero runs exercise the PADDING scanner
                        i = rng.randrange(n)
                        p[i:i + rng.randrange(1, 30)] = bytes(rng.randrange(1, 30))
                    yield bytes(p)
            else:
                for _ in range(case["n"]):
                    payload, _t = gen_wellformed(rng, rng.choice(["min", "rand", 8]), rng.choice([1, 2, 4, 8]))
                    for _k in range(rng.randrange(1, 4)):
                        payload = mutate(rng, payload)
                    yield payload
        for payload in payloads():
            steps, frames, exc = run(payload)
            if isinstance(exc, stepmon.StepBound):
                bad.append((payload, f"parser did not terminate within {step_limit(len(payload))} statement executions on a {len(payload)}-byte payload: {exc}"))
                oc = "STEPBOUND"
            elif exc is not None:
                oc = type(exc).__name__
                if not isinstance(exc, (IndexError, ValueError, KeyError, TypeError, AttributeError, OverflowError, AssertionError)) and type(exc).__module__ == "builtins":
                    bad.append((payload, f"parser failed with {exc!r} (resource exhaustion is not an error signal)"))
            else:
                oc = "ok"
                m = check_arbitrary(frames, payload)
                if m:
                    bad.append((payload, m))
            outcomes[oc] = outcomes.get(oc, 0) + 1
            classes.add((case["kind"], min(len(payload), 3) if len(payload) < 3 else "3+", payload[:1].hex(), oc))
    res = {"units": units, "classes": sorted(classes, key=repr)[:6000], "cls": [case["id"]], "nontrivial": units > 0,
           "mon": {"parse_frames.calls": units, "max_steps_x100_per_byte": int(maxratio * 100), "fields_not_observable": sum(UNOBSERVED.values())},
           "tags": [f"{case['kind']}:{k}" for k in outcomes],
           "sample": {"case": case["id"], "payloads": units, "outcomes": outcomes or "all compared with ground truth", "max_steps_per_byte": round(maxratio, 1)}}
    if bad:
        res.update(v="violated", msg=f"{len(bad)} payload(s); first: {bad[0][1]} payload={bad[0][0][:80].hex()}", files={"payload.bin": bad[0][0]})
    else:
        res["v"] = "held"
    return res
