"""C10 - server-port selection and port mapping behave as documented.

Oracle over configurations: for every connection of a scene, from the output file:
  TLS/TCP  exported iff the server's port is a default (443, 44330) or listed with -p; nothing at all is exported for a TCP connection on an unselected port;
  mapping  without -m the exported server port is the original one; with -m it is the mapped port for listed server ports and 8080 for the others
           (bare -m = 443:8080; pairs may carry trailing commas); the client port is never changed - TLS and QUIC alike;
  and the exported data of every selected connection is still exact (a wrong port decision usually shows up as a missing or duplicated conversation).
"""
import random

from vlib import e2e, engine, gen, outparse, scene, tcpcap

PORTS = [443, 44330, 8443, 4433, 9443, 1234, 50000, 1, 65535, 8080]


def build(tier, seed):
    thorough = tier == "thorough"
    cases = [{"id": f"cfg-{i}", "i": i} for i in range(30000 if thorough else 300)]
    cases += [{"id": f"collide-{i}", "i": i, "collide": True} for i in range(1500 if thorough else 24)]
    # the selection and the mapping are those of THIS command: an earlier run() of the same process with other -p / -m arguments leaves nothing behind
    cases += [{"id": f"hist-{i}", "i": i, "hist": True} for i in range(6000 if thorough else 120)]

    def evalfn(case):
        rng = random.Random(engine.subseed("C10", seed, case["id"]))
        return eval_collide(case, rng) if case.get("collide") else eval_case(case, rng)

    return dict(cases=cases, evalfn=evalfn, level="exploration", min_nontrivial=50,
                rule="scenes of 2-5 TLS/QUIC connections to server ports drawn from {443, 44330, 8443, 4433, 9443, 1234, 50000, 1, 65535, 8080} x -p lists of 0..4 ports x -m "
                     "absent / bare / 1..4 a:b pairs with and without trailing commas (mapped ports inside and outside the connection set); the same after an earlier run() of the same process with another -p list and mapping ('hist'); plus 'collide' scenes: one client "
                     "address and port connected to two watched ports of one server, both mapped to the same exported port. Class = (-p size, -m form, "
                     "per-connection (protocol, selected?, mapped?)); non-trivial = at least one connection was exported and every connection's presence, ports and data were checked",
                assumptions=["a connection has exactly one side on a selected port (the statement is ambiguous otherwise; not generated)"])


def eval_case(case, rng):
    n = rng.choice([2, 3, 4, 5])
    plist = rng.sample([p for p in PORTS if p not in (443, 44330)], rng.choice([0, 0, 1, 2, 4]))
    selected = {443, 44330} | set(plist)
    mform = rng.choice(["none", "none", "bare", "pairs", "pairs-commas"])
    eps, flows, exp = [], [], []
    used = set()
    for i in range(n):
        sport = rng.choice(PORTS)
        ep = tcpcap.random_ep(rng, sport=sport, odd=0.0)
        while ep.cport in selected or ep.cport in PORTS or (ep.cip, ep.cport) in used:
            ep = tcpcap.random_ep(rng, sport=sport, odd=0.0)
        used.add((ep.cip, ep.cport))
        quic = rng.random() < 0.35
        fl = gen.random_quic_flow(rng, i, ep=ep, napp=3) if quic else gen.random_tls_flow(rng, i, ep=ep, nmax=4, min_records=1)
        flows.append(fl)
    mapargs = None
    extra = []
    if plist:
        extra += ["-p"] + [str(p) for p in plist]
    if mform == "bare":
        mapargs = []
        extra += ["-m"]
    elif mform.startswith("pairs"):
        k = rng.randrange(1, 5)
        srcs = rng.sample(PORTS, k)
        # targets incl. identity pairs a:a and, now and then, the very port a client of that server connected from (the two ends of the exported conversation then carry
        # the same port number - on different addresses)
        def target(a):
            mine = [f.ep.cport for f in flows if f.ep.sport == a]
            if mine and rng.random() < 0.3:
                return rng.choice(mine)
            return rng.choice([a, a, 8080, 80, 1, 65535, 443, 44330, rng.choice(PORTS), tcpcap.map_target(rng)])
        mapargs = [f"{a}:{target(a)}" for a in srcs]
        shown = [m + "," if (mform == "pairs-commas" and j < len(mapargs) - 1) else m for j, m in enumerate(mapargs)]
        extra += ["-m"] + shown
    if rng.random() < 0.5:       # option order must not matter
        extra = extra[::-1] if not extra else extra
    items = scene.stamp(scene.merge(flows, rng, rng.choice(["random", "concat", "bursty"])), rng)
    extra0 = None
    if case.get("hist"):
        # earlier command of the same process: it selects ports this command does not select (preferably ports that connections of the capture use) and maps differently
        unsel = sorted({f.ep.sport for f in flows if f.kind != "quic" and f.ep.sport not in selected})
        p0 = sorted(set(rng.sample([p for p in PORTS if p not in (443, 44330)], rng.choice([0, 1, 2])) + rng.sample(unsel, min(len(unsel), rng.choice([1, 1, 2])))))
        extra0 = (["-p"] + [str(p) for p in p0]) if p0 else []
        m0 = rng.choice(["none", "bare", "pairs", "pairs"])
        if m0 == "bare":
            extra0 += ["-m"]
        elif m0 == "pairs":
            extra0 += ["-m"] + [f"{a}:{rng.choice([8080, 80, 9000, rng.choice(PORTS), tcpcap.map_target(rng)])}" for a in rng.sample(PORTS, rng.randrange(1, 5))]
        from vlib import runner
        files = {"in.pcapng": scene.capture(items), "keys.log": scene.keylog_text(flows, rng)}
        base = ["-i", "{dir}/in.pcapng", "-s", "{dir}/keys.log"]
        argv = base + ["-o", "{dir}/out.pcapng"] + extra
        res = runner.run_tlexport(files, [base + ["-o", "{dir}/out_earlier.pcapng"] + extra0, argv])
    else:
        res, files, argv = e2e.run_capture(scene.capture(items), scene.keylog_text(flows, rng), extra)
    desc = []
    out = {"tags": [f"m:{mform}", f"p:{len(plist)}"] + (["history"] if extra0 is not None else []),
           "sample": {"case": case["id"], "connections": [f.label + " " + f.ep.describe() for f in flows], "args": extra, "earlier_run_args": extra0}}
    fail = e2e.run_failed(res)
    if fail:
        return dict(out, cls=[mform, len(plist)], v="inconclusive" if fail.startswith("INCONCLUSIVE") else "violated", msg=f"args {extra}: " + fail, files=files)
    an = outparse.Analysis(res.out)
    msgs = []
    exported = 0
    expected_keys = set()
    for fl in flows:
        ep = fl.ep
        sel = fl.kind == "quic" or ep.sport in selected
        want_port = e2e.exported_port(ep.sport, mapargs)
        desc.append((fl.kind, "sel" if sel else "unsel", "mapped" if want_port != ep.sport else "orig"))
        if not sel:
            # nothing of this TCP connection may be in the output, under any server port
            for p in an.pkts:
                if p.proto == 6 and {(p.src, p.sport), (p.dst, p.dport)} & {(ep.cip, ep.cport)}:
                    msgs.append(f"{fl.label} {ep.describe()} is on an unselected port but packets of it were exported ({p.sport}->{p.dport})")
                    break
            continue
        kc, ks = gen.flow_keys(fl, mapargs)
        expected_keys |= {kc, ks}
        m = gen.check_flow_exact(an, fl, mapargs)
        if m:
            # say where it went instead
            other = sorted({(p.sport, p.dport) for p in an.pkts if (p.src, p.sport) == (ep.cip, ep.cport) or (p.dst, p.dport) == (ep.cip, ep.cport)})
            msgs.append(f"{fl.label} {ep.describe()}: expected under server port {want_port} (client port {ep.cport} unchanged) - {m[0][:160]}; packets of this client are exported with ports {other[:4]}")
        else:
            exported += 1
    for p in an.pkts:
        if (p.src, p.sport, p.dst, p.dport) not in expected_keys and p.payload:
            msgs.append(f"exported packet {p.sport}->{p.dport} ({'tcp' if p.proto == 6 else 'udp'}) belongs to no connection under the documented port rules")
            break
    out["cls"] = [mform, len(plist), sorted(set(desc))] + (["after-earlier-run"] if extra0 is not None else [])
    out["mon"] = {"connections_checked": len(flows)}
    out["nontrivial"] = exported > 0
    if msgs:
        return dict(out, v="violated", msg=f"args {extra}" + (f" (after an earlier run() of the same process with {extra0})" if extra0 is not None else "") + ": " + "; ".join(msgs[:3]), files=dict(files, argv="\n".join(argv), **{"out.pcapng": res.out}))
    return dict(out, v="held")


def eval_collide(case, rng):
    """One client (address, port) talks to two different watched ports of one server, one connection after the other, and -m sends both to the same exported port.
    The documented rule still names that port for both (the two exported conversations then share a 4-tuple, so only ports and the per-direction byte sequence are judged)."""
    import dataclasses
    a, b = rng.sample([443, 44330, 8443, 4433, 9443, 1234, 50000], 2)
    plist = [p for p in (a, b) if p not in (443, 44330)]
    extra = (["-p"] + [str(p) for p in plist]) if plist else []
    form = rng.choice(["bare", "pairs", "pairs-commas"])
    if form == "bare" and 443 in (a, b) and rng.random() < 0.5:
        form = "pairs"
    if form == "bare":
        mapargs = []
        extra += ["-m"]
    else:
        t = rng.choice([8080, 9000, 80, a, tcpcap.map_target(rng)])
        mapargs = [f"{a}:{t}", f"{b}:{t}"]
        extra += ["-m"] + ([mapargs[0] + ",", mapargs[1] + ","] if form == "pairs-commas" else mapargs)
    ep1 = tcpcap.random_ep(rng, sport=a, odd=0.0)
    while ep1.cport in (a, b, 443, 44330) or ep1.cport in PORTS:
        ep1 = tcpcap.random_ep(rng, sport=a, odd=0.0)
    ep2 = dataclasses.replace(ep1, sport=b, cisn=rng.randrange(1, 1 << 31), sisn=rng.randrange(1, 1 << 31))
    flows = [gen.random_tls_flow(rng, 0, ep=ep1, nmax=4, min_records=1), gen.random_tls_flow(rng, 1, ep=ep2, nmax=4, min_records=1)]
    if rng.random() < 0.5:
        flows.reverse()
        for k, fl in enumerate(flows):
            for it in fl.items:
                it.conn = k
    items = scene.stamp(scene.merge(flows, rng, "concat"), rng)
    res, files, argv = e2e.run_capture(scene.capture(items), scene.keylog_text(flows, rng), extra)
    want = [e2e.exported_port(p, mapargs) for p in (a, b)]
    out = {"tags": ["m:collide-" + form], "cls": ["collide", form, len(plist), want[0] == want[1]],
           "sample": {"case": case["id"], "connections": [f.label + " " + f.ep.describe() for f in flows], "args": extra}}
    fail = e2e.run_failed(res)
    if fail:
        return dict(out, v="inconclusive" if fail.startswith("INCONCLUSIVE") else "violated", msg=f"args {extra}: " + fail, files=files)
    an = outparse.Analysis(res.out)       # (only its lenient packet list is used: two conversations on one 4-tuple are no TCP stream any more)
    msgs = []
    got = {"c": b"", "s": b""}
    for p in an.pkts:
        if not p.payload:
            continue
        if (p.src, p.sport, p.dst, p.dport) == (ep1.cip, ep1.cport, ep1.sip, want[0]):
            got["c"] += p.payload
        elif (p.src, p.sport, p.dst, p.dport) == (ep1.sip, want[0], ep1.cip, ep1.cport):
            got["s"] += p.payload
        else:
            msgs.append(f"exported packet {p.sport}->{p.dport}: the documented rule gives server port {want[0]} for both connections (ports {a} and {b}) and leaves the client port {ep1.cport} alone")
            break
    for d in "cs":
        truth = b"".join(f.conn.truth[d] for f in flows)
        if not msgs and got[d] != truth:
            msgs.append(f"{'client' if d == 'c' else 'server'} direction: {len(got[d])} bytes exported under port {want[0]}, the two connections sent {len(truth)}")
    out["mon"] = {"connections_checked": 2}
    out["nontrivial"] = bool(got["c"] or got["s"])
    if msgs:
        return dict(out, v="violated", msg=f"args {extra}: " + "; ".join(msgs[:3]), files=dict(files, argv="\n".join(argv), **{"out.pcapng": res.out}))
    return dict(out, v="held")
