"""C03 - an undecryptable or damaged flow never aborts the run or disturbs other flows.  (fault enumeration)

Per scene (1 victim + 1..3 healthy bystanders of mixed TLS versions/suites and QUIC) the fault-free run is taken first and must itself be exact
(else the scene is inconclusive); then one run per fault.  Oracles:
  (a) the run completes: exit status 0, no traceback, output file written (a CPU-budget overrun is non-termination);
  (b) every bystander's exported packets (timestamp + frame bytes) are identical to the fault-free run;
  (c) for information-removing faults (missing/partial keys, unsupported suite, truncation, packet loss) and foreign traffic: the victim contributes at
      most a prefix of its true plaintext per direction (QUIC with a deleted datagram: an in-order subsequence of the expected datagrams - later
      datagrams are independently decryptable, so the literal prefix reading would demand more than any implementation can give), foreign traffic nothing.
Corruption faults (bit flip, overwrite, shorten, wrong secrets) are judged on (a)+(b) only, as the statement says.
"""
import random

from vlib import corpus, e2e, engine, gen, netsynth as ns, outparse, quicsynth, scene, tcpcap, tlssynth

KINDS = ["delete", "cut", "keys", "keys-cut", "cbc-pad", "flip-hello", "wrongkeys", "suite", "flip", "overwrite", "shorten", "snap", "stale", "noise-http", "noise-udp", "noise-udp-short"]
UNKNOWN_SUITES = [0x0A0A, 0x0000, 0xFFFF, 0xC03C, 0x0001, 0x1306, 0x5600, 0xFAFA]


def reframe(item, ep, payload_fn):
    """rebuild a victim packet with a modified transport payload, lengths and checksums consistent"""
    if item.tag == "quic":
        g = item.seg
        return scene.Item(scene.udp_frame(ep, item.dir, payload_fn(g.data)), conn=item.conn, dir=item.dir, ts=item.ts, seg=g, tag="quic")
    s = item.seg
    s2 = tcpcap.Seg(s.dir, s.seq, s.ack, s.flags, payload_fn(s.payload), s.woff, s.burst)
    return scene.Item(tcpcap.frame(ep, s2), conn=item.conn, dir=item.dir, ts=item.ts, seg=s2, tag=item.tag)


def is_subsequence(got, want):
    it = iter(want)
    return all(any(g == w for w in it) for g in got)


def long_tls_victim(rng, ep):
    """a long one-sided-heavy history of short records, mostly one record per segment: what piles up behind a lost segment matters here"""
    from vlib import suites
    v, c, name, p = suites.pick(rng, {0x0300: 1, 0x0301: 1.5, 0x0302: 2, 0x0303: 3, 0x0304: 1})
    spec, _ = tlssynth.random_spec(rng, v, c, nmax=0)
    heavy = rng.choice("cs")
    spec.app = [(heavy if rng.random() < 0.85 else ("c" if heavy == "s" else "s"), rng.randbytes(rng.choice([1, 20, 53, 60]))) for _ in range(rng.randrange(180, 360))]
    spec.alert_end = False
    conn = tlssynth.build_conn(spec, rng)
    segkind = rng.choice(["records", "records", "random"])
    fl = scene.tls_flow(conn, ep, tcpcap.segments(conn.events, ep, tcpcap.make_cutter(rng, segkind, conn.events)))
    fl.label = f"tls-{suites.VNAME[v]}-{c:04X}-long"
    fl.segkind = segkind
    return fl


def build_scene(rng, long_victim=False, shared_server=False):
    vq = rng.random() < 0.4 and not long_victim
    nb = rng.choice([1, 2, 3]) if not long_victim else 1
    if shared_server:
        # QUIC victim and QUIC bystanders on one server address; a bystander's client uses the zero-length connection ID (browsers do), another a 1..4-byte
        # one: once the victim's long-header packets are gone, only addresses and connection IDs keep its packets away from the bystanders' sessions
        nb = rng.choice([1, 2])
        eps = gen.distinct_eps(rng, nb + 1, rng.choice(["same-server", "same-client-host"]))
        flows = [gen.random_quic_flow(rng, 0, ep=eps[0], napp=rng.choice([3, 6, 10]))]
        for i in range(nb):
            flows.append(gen.random_quic_flow(rng, i + 1, ep=eps[i + 1], napp=rng.choice([4, 8]), ccid_len=0 if i == 0 else rng.choice([0, 1, 2, 4])))
        items = scene.merge(flows, rng, rng.choice(["random", "bursty", "roundrobin"]))
        scene.stamp(items, rng, "plain")
        return flows, items
    eps = gen.distinct_eps(rng, nb + 1, rng.choice(["random", "same-client-host", "random", "same-server", "small-pool", "mirrored"]))
    if long_victim:
        victim = long_tls_victim(rng, eps[0])
    else:
        victim = gen.random_quic_flow(rng, 0, ep=eps[0], napp=rng.choice([3, 6, 10])) if vq else gen.random_tls_flow(rng, 0, ep=eps[0], nmax=6, min_records=2)
    flows = [victim]
    for i in range(nb):
        flows.append(gen.random_quic_flow(rng, i + 1, ep=eps[i + 1], napp=4) if rng.random() < 0.4 else gen.random_tls_flow(rng, i + 1, ep=eps[i + 1], nmax=6, min_records=1))
    items = scene.merge(flows, rng, rng.choice(["random", "bursty", "roundrobin"]))
    scene.stamp(items, rng, "plain")
    return flows, items


def patch_suite(fl, ep, code, rng):
    """TLS victim: the ServerHello announces `code` instead of the negotiated suite (the rest of the flow is unchanged)"""
    conn = fl.conn
    ev = list(conn.events)
    for i, e in enumerate(ev):
        if e.dir == "s" and e.kind == "hs" and e.wire[5] == 2:
            off = 5 + 4 + 2 + 32
            off += 1 + e.wire[off]
            w = bytearray(e.wire)
            w[off:off + 2] = code.to_bytes(2, "big")
            ev[i] = tlssynth.Ev(e.dir, bytes(w), e.kind, e.plain, e.woff, e.poff, e.ctype)
            break
    segs = tcpcap.segments(ev, ep, tcpcap.cut_mss(1460))
    return scene.tls_flow(conn, ep, segs)


def build(tier, seed):
    thorough = tier == "thorough"
    nscenes = 120 if thorough else 26
    cases = []
    for i in range(nscenes):
        for k in KINDS:
            cases.append({"id": f"scene{i}-{k}", "scene": i, "kind": k})
    real = corpus.tls_captures() + corpus.quic_captures(big=False)
    for name, path, _, _ in (real if thorough else real[3::6]):         # the repository's real captures with faults (one connection each: only 'the run never fails' and a well-formed output are judged)
        cases.append({"id": f"real-{name}", "real": name, "scene": -1, "kind": "real"})

    def evalfn(case):
        if case.get("real"):
            return eval_real(case, random.Random(engine.subseed("C03", seed, case["id"])), thorough)
        return eval_case(case, seed, thorough)

    def extra(results):
        return {"faults_injected_by_kind": {k: sum(r["units"] for r in results if r["id"].endswith("-" + k)) for k in KINDS},
                "distinct_crash_signatures_seen": sorted({t[6:] for r in results for t in r.get("tags", []) if t.startswith("crash:")})}

    return dict(cases=cases, evalfn=evalfn, level="fault_enumeration", min_nontrivial=60, extra=extra,
                rule="per scene and fault kind (every sixth scene has a long victim: 180-360 short records, so that much piles up behind a fault): delete each victim packet; cut before each packet; every subset of the victim's key-log lines (TLS 1.3/QUIC all 2^4-2^5 "
                     "subsets, <=1.2 present/absent); the key log cut inside one of the victim's lines; secrets replaced by random ones; ServerHello suite id replaced by 8 unknown/unsupported/GREASE values; bit flip at every "
                     "byte of the handshake packets and at sampled bytes elsewhere; every bit of the structural bytes of both hello segments; all 256 values of the padding-length-controlling ciphertext byte of a protected CBC record; overwrite; shorten; plain HTTP on 443; UDP payloads with every first byte x lengths "
                     "1..1500 and all lengths 1..8, with and without -a. Class = (victim kind, fault kind, position class, outcome); non-trivial = the fault run completed "
                     "and bystanders/victim were compared against the fault-free run of the same scene",
                assumptions=["fault-free run of the scene is exact (checked per scene; otherwise inconclusive)"])


def eval_real(case, rng, thorough):
    name, path, keys, xo = next(c for c in corpus.tls_captures() + corpus.quic_captures(big=False) if c[0] == case["real"])
    items = [it for it in corpus.load(path) if it[0] == "pkt"]
    out = {"cls": ["real", name], "tags": ["kind:real", "victim:real"], "sample": {"case": case["id"], "capture": name, "packets": len(items)}}
    base, files, argv = e2e.run_capture(ns.pcapng(items), keys, xo)
    fail = e2e.run_failed(base)
    if fail:
        return dict(out, v="inconclusive" if fail.startswith("INCONCLUSIVE") else "violated", msg="fault-free run: " + fail, files=files)
    def plen(fr):
        seen = []
        return len(seen[0]) if corpus.reframe_raw(fr, lambda p: seen.append(p) or p) is not None and seen else 0
    carrying = [i for i, it in enumerate(items) if plen(it[2]) > 0]
    bad, units, classes, crash_tags = [], 0, set(), set()
    for i in (carrying if thorough or len(carrying) <= 16 else sorted(rng.sample(carrying, 16))):
        for kind in ("delete", "flip", "overwrite", "shorten", "keys-cut"):
            ks = keys
            if kind == "delete":
                its = items[:i] + items[i + 1:]
            elif kind == "keys-cut":
                ks = keys[:rng.randrange(0, len(keys) + 1)]
                its = items
            else:
                def mod(p, kind=kind):
                    p = bytearray(p)
                    j = rng.randrange(len(p))
                    if kind == "flip":
                        p[j] ^= 1 << rng.randrange(8)
                    elif kind == "overwrite":
                        n = rng.randrange(1, 40)
                        p[j:j + n] = rng.randbytes(len(p[j:j + n]))
                    else:
                        del p[j:]
                    return bytes(p)
                its = items[:i] + [("pkt", items[i][1], corpus.reframe_raw(items[i][2], mod))] + items[i + 1:]
            units += 1
            r, f2, a2 = e2e.run_capture(ns.pcapng(its), ks, xo)
            fail = e2e.run_failed(r)
            if fail:
                if fail.startswith("INCONCLUSIVE"):
                    continue
                crash_tags.add(f"crash:{r.crash_signature()}")
                bad.append((f"{kind} at packet {i}: {fail[:700]}", f2))
                classes.add((kind, "run-failed"))
                continue
            errs = outparse.Analysis(r.out).errors
            classes.add((kind, "ok" if not errs else "malformed-output"))
            if errs:
                bad.append((f"{kind} at packet {i}: output is not well-formed: {errs[0]}", dict(f2, **{"out.pcapng": r.out})))
    out.update(units=units, classes=[["real", name] + list(c) for c in sorted(classes)], nontrivial=units > 0, tags=out["tags"] + sorted(crash_tags))
    if bad:
        return dict(out, v="violated", msg=f"real capture {name}: {len(bad)} of {units} faults; first: {bad[0][0]}", files=bad[0][1])
    return dict(out, v="held")


def eval_case(case, seed, thorough):
    rng = random.Random(engine.subseed("C03", seed, "scene", case["scene"]))
    long_victim = case["scene"] % 6 == 5 and case["kind"] in ("delete", "cut")
    flows, items = build_scene(rng, long_victim, shared_server=case["scene"] % 7 == 3)
    frng = random.Random(engine.subseed("C03", seed, case["id"]))
    victim = flows[0]
    vep = victim.ep
    keys_lines = [l for f in flows for l in f.keylog]
    rng.shuffle(keys_lines)
    keys = ("\n".join(keys_lines) + "\n").encode()
    base_res, files, argv = e2e.run_capture(scene.capture(items), keys)
    out = {"cls": [case["kind"], victim.kind], "tags": [f"victim:{victim.kind}", f"kind:{case['kind']}"],
           "sample": {"case": case["id"], "victim": victim.label + " " + vep.describe(), "bystanders": [f.label for f in flows[1:]], "packets": len(items)}}
    fail = e2e.run_failed(base_res)
    if fail:
        return dict(out, v="inconclusive", msg="fault-free run of the scene failed: " + fail, nontrivial=False)
    base = outparse.Analysis(base_res.out)
    for f in flows:
        m = gen.check_flow_exact(base, f)
        if m:
            return dict(out, v="inconclusive", msg="fault-free run of the scene is not exact (C01/C02 business): " + m[0], nontrivial=False)
    base_pk = [gen.flow_packets(base, f) for f in flows]
    vidx = [i for i, it in enumerate(items) if it.conn == 0 and (it.tag == "quic" or (it.seg is not None and it.seg.payload))]
    faults = []     # (label, items, keys, extra_args, oracle) oracle in {'prefix','subseq','ab','foreign'}
    kind = case["kind"]
    vkeys = set(victim.keylog)
    if kind == "delete":
        pick = vidx if (thorough and len(vidx) <= 60) or len(vidx) <= 14 else sorted(set(frng.sample(vidx[: max(14, len(vidx) // 3)], 8) + frng.sample(vidx, 6)))
        for i in pick:
            faults.append((f"delete packet {i}", items[:i] + items[i + 1:], keys, [], "subseq" if victim.kind == "quic" else "prefix"))
    elif kind == "cut":
        # the victim's part of the capture ends (or starts) mid-connection; the bystanders' packets all stay (cutting the whole capture is C08)
        vall = [i for i, it in enumerate(items) if it.conn == 0]
        pts = list(range(0, len(vall) + 1))
        for c in pts if (thorough or len(pts) <= 10) else sorted(frng.sample(pts, 10)):
            drop = set(vall[c:])
            faults.append((f"victim's packets end after its packet {c}", [it for i, it in enumerate(items) if i not in drop], keys, [], "subseq" if victim.kind == "quic" else "prefix"))
        for c in pts[1:] if (thorough or len(pts) <= 8) else sorted(frng.sample(pts[1:], 8)):
            drop = set(vall[:c])
            faults.append((f"victim's packets start at its packet {c}", [it for i, it in enumerate(items) if i not in drop], keys, [], "prefix" if victim.kind != "quic" else "subseq"))
    elif kind == "keys":
        vl = list(victim.keylog)
        subsets = range(0, 1 << len(vl)) if len(vl) <= 5 else [frng.randrange(1 << len(vl)) for _ in range(24)]
        subsets = [m for m in subsets if m != (1 << len(vl)) - 1]
        for m in subsets if (thorough or len(subsets) <= 16) else frng.sample(list(subsets), 16):
            keep = [l for l in keys_lines if l not in vkeys or (vl.index(l) < 60 and m >> vl.index(l) & 1)]
            faults.append((f"key-log lines of the victim kept: {[l.split()[0] for j, l in enumerate(vl) if m >> j & 1]}", items, ("\n".join(keep) + "\n").encode(), [],
                           "subseq" if victim.kind == "quic" else "prefix"))
    elif kind == "keys-cut":
        # partial secrets: the key log ends in the middle of one of the victim's lines (a key log that is still being written); the bystanders' lines are complete
        vl = list(victim.keylog)
        frng.shuffle(vl)
        head = "".join(l + "\n" for l in keys_lines if l not in vkeys)
        tail = "".join(l + "\n" for l in vl)
        pts = set()
        off = 0
        for l in vl:
            a, b, c = l.split()
            s0 = off + len(a) + 1 + len(b) + 1
            pts.update([off + frng.randrange(1, len(a) + 1), off + len(a) + 1 + frng.randrange(0, len(b) + 1), s0, s0 + 1, s0 + 2, s0 + frng.randrange(0, len(c)) | 1,
                        s0 + (frng.randrange(0, len(c)) & ~1), s0 + len(c) - 1, s0 + len(c)])
            off += len(l) + 1
        for c in sorted(pts) if (thorough or len(pts) <= 12) else sorted(frng.sample(sorted(pts), 12)):
            cut = tail[:c]
            last = cut.rsplit("\n", 1)[-1]
            in_secret = last.count(" ") == 2 and len(last.split(" ")[2]) > 0
            faults.append((f"key log ends after {c} of the {len(tail)} bytes of the victim's lines (last line: {len(last)} characters, {'inside the secret' if in_secret else 'before the secret'})",
                           items, (head + cut).encode(), [], "ab" if in_secret else ("subseq" if victim.kind == "quic" else "prefix")))
    elif kind == "wrongkeys":
        for rep in range(4):
            repl = []
            for l in keys_lines:
                if l in vkeys and (rep < 2 or frng.random() < 0.5):
                    a, b, c = l.split()
                    repl.append(f"{a} {b} {frng.randbytes(len(c) // 2).hex()}")
                else:
                    repl.append(l)
            faults.append(("victim's secrets replaced by random ones", items, ("\n".join(repl) + "\n").encode(), [], "ab"))
    elif kind == "suite":
        for code in UNKNOWN_SUITES:
            if victim.kind == "tls":
                f2 = patch_suite(victim, vep, code, frng)
                ks = keys
                oracle = "prefix-rebased"
            else:
                # QUIC: the ServerHello sits inside a protected Initial packet, so the victim is rebuilt by the reference sender with the same spec
                # but a ServerHello that announces `code` (packet protection keeps using the really negotiated suite)
                import copy
                sp2 = copy.deepcopy(victim.conn.spec)
                sp2.sh_suite = code
                qc2 = quicsynth.build_qconn(sp2, random.Random(frng.random()))
                f2 = scene.quic_flow(qc2, vep)
                f2.label, f2.segkind = victim.label, "dgram"
                ks = ("\n".join([l for l in keys_lines if l not in vkeys] + list(f2.keylog)) + "\n").encode()
                oracle = "ab-rebased"        # a new random victim: only (a) and (b) can be compared with the fault-free scene
            its = scene.merge([f2] + flows[1:], random.Random(1), "concat")
            scene.stamp(its, random.Random(2), "plain")
            faults.append((f"ServerHello announces suite {code:#06x}", its, ks, [], oracle))
    elif kind == "flip-hello":
        # every single bit of the structural bytes of the victim's ClientHello and ServerHello: record header (type, version, length), message header, hello version,
        # and - behind the 32-byte random - session-id length, session id, suite, compression, extensions length, first extension header.  One flipped bit there makes
        # the two sides of TLExport's state disagree (version vs. cipher class, lengths vs. content) in ways random flips rarely hit
        if victim.kind == "tls" and (thorough or case["scene"] % 3 == 1):
            for d_ in "cs":
                first = next((i for i in vidx if items[i].seg.dir == d_ and items[i].seg.woff == 0), None)
                if first is None:
                    continue
                pl = items[first].seg.payload
                sid = pl[43] if len(pl) > 43 else 0
                offs = list(range(0, 11)) + list(range(43, min(len(pl), 43 + 1 + sid + 10)))
                for j in [o for o in offs if o < len(pl)]:
                    for bit in range(8):
                        newit = reframe(items[first], vep, lambda p_, j=j, bit=bit: p_[:j] + bytes([p_[j] ^ (1 << bit)]) + p_[j + 1:])
                        faults.append((f"bit {bit} of byte {j} of the victim's {'ClientHello' if d_ == 'c' else 'ServerHello'} segment flipped", items[:first] + [newit] + items[first + 1:], keys, [], "ab"))
        elif victim.kind == "quic" and (thorough or case["scene"] % 3 != 2):
            # the same for QUIC: every bit of the invariant part of the long headers of the victim's first datagrams - first octet (form, fixed bit, type), the four
            # version octets (one flipped bit turns version 1 into version 0, a Version Negotiation packet, in the middle of a handshake), the DCID length and the first
            # DCID octet.  The datagrams that follow the damaged one find whatever state it left behind
            longs = [i for i in vidx if items[i].seg.data and items[i].seg.data[0] & 0x80][:5 if thorough else 2]
            for i in longs:
                for j in range(0, 7):
                    for bit in range(8):
                        if not thorough and ((j not in (0, 4) and (bit + j + i) % 4) or (j == 0 and bit % 2)):
                            continue
                        newit = reframe(items[i], vep, lambda p_, j=j, bit=bit: p_[:j] + bytes([p_[j] ^ (1 << bit)]) + p_[j + 1:] if len(p_) > j else p_)
                        faults.append((f"bit {bit} of octet {j} of the long header of the victim's datagram {vidx.index(i)} flipped", items[:i] + [newit] + items[i + 1:], keys, [], "ab"))
    elif kind in ("flip", "overwrite", "shorten"):
        hs_idx = vidx[:4]
        for rep in range(40 if thorough else 14):
            i = frng.choice(hs_idx) if rep % 2 == 0 else frng.choice(vidx)
            it = items[i]

            def mod(p, kind=kind):
                p = bytearray(p)
                if not p:
                    return bytes(p)
                if kind == "flip":
                    j = frng.randrange(len(p)) if rep % 3 else frng.randrange(min(len(p), 12))
                    p[j] ^= 1 << frng.randrange(8)
                elif kind == "overwrite":
                    j = frng.randrange(len(p))
                    n = frng.randrange(1, 40)
                    p[j:j + n] = frng.randbytes(len(p[j:j + n])) if frng.random() < 0.7 else bytes([frng.choice([0, 0xFF])]) * len(p[j:j + n])
                else:
                    del p[frng.randrange(0, len(p)):]
                return bytes(p)
            newit = reframe(it, vep, mod)
            faults.append((f"{kind} in payload of packet {i} ({'handshake' if i in hs_idx else 'data'})", items[:i] + [newit] + items[i + 1:], keys, [], "ab"))
    elif kind == "snap":
        # the victim's packets were captured with a snap length: every frame of it ends after n octets (inside the Ethernet, IP or transport header, at the first
        # payload octets, inside the first record) although its length fields promise more - the most common way a real capture loses information
        vall = [i for i, it in enumerate(items) if it.conn == 0]
        _l3, l4, _end, _pr, _v6 = ns.locate(items[vall[0]].frame)
        hl = 8 if victim.kind == "quic" else 20
        snaps = sorted({14, _l3, _l3 + 1, _l3 + 9, l4 - 1, l4, l4 + 4, l4 + hl - 1, l4 + hl, l4 + hl + 1, l4 + hl + 5, l4 + hl + 6, l4 + hl + 11, l4 + hl + 40, 96, 128, 200, 256, 512, 1024})
        link = sorted({0, 13, 14, 15, max(0, _l3 - 3), _l3 - 1})      # inside the link-layer header (Ethernet, VLAN tags)
        for sn in sorted(set(snaps) | set(link)) if thorough else sorted(set(frng.sample(snaps, 7)) | set(frng.sample(link, 2))):
            its = [scene.Item(it.frame[:sn], conn=it.conn, dir=it.dir, ts=it.ts, seg=it.seg, tag=it.tag) if it.conn == 0 else it for it in items]
            faults.append((f"victim's packets captured with snap length {sn} (transport header at octet {l4})", its, keys, [], "ab"))
    elif kind == "cbc-pad":
        # corrupted records, enumerated where a CBC receiver is most sensitive: every value of the ciphertext byte that is XORed into the padding-length
        # byte of a protected record (TLExport checks neither MAC nor padding, so that byte alone decides how many bytes 'decrypt' returns: 0, 1, 2, ...)
        if victim.kind == "tls" and victim.conn.params["mode"] == "CBC" and (thorough or case["scene"] % 3 == 0):
            conn, blk = victim.conn, victim.conn.params["block"]
            ccs, targets = set(), []
            for e in conn.events:
                if e.kind == "ccs":
                    ccs.add(e.dir)
                elif e.dir in ccs and len(e.wire) - 5 >= 2 * blk:
                    targets.append(e)
            pick = [e for e in targets if e.kind == "alert"][:1] + [e for e in targets if e.kind == "hs"][:1] + [e for e in targets if e.kind == "app"][-1:]
            for e in pick[: 4 if thorough else 1]:
                tails = {0, conn.params["mac_len"]} if conn.spec.etm else {0}
                for tail in sorted(tails):
                    pos = e.woff + len(e.wire) - tail - blk - 1
                    hit = [i for i in vidx if items[i].seg.dir == e.dir and not items[i].seg.dup and items[i].seg.woff <= pos < items[i].seg.woff + len(items[i].seg.payload)]
                    if not hit or pos < e.woff + 5:
                        continue
                    i = hit[0]
                    j = pos - items[i].seg.woff
                    orig = items[i].seg.payload[j]
                    for val in range(256):
                        if val == orig:
                            continue
                        newit = reframe(items[i], vep, lambda pl, j=j, val=val: pl[:j] + bytes([val]) + pl[j + 1:])
                        faults.append((f"byte before the last cipher block of the victim's protected {e.kind} record ({'client' if e.dir == 'c' else 'server'}, {len(e.wire)} bytes on the wire"
                                       f"{', EtM' if tail else ''}) overwritten: {orig:#04x} -> {val:#04x}", items[:i] + [newit] + items[i + 1:], keys, [], "ab"))
    elif kind == "stale":
        # traffic that adds nothing: TCP keep-alive probes (one octet in front of SND.NXT: garbage, zero, or the last octet again) on an idle victim and retransmissions
        # that start inside an earlier segment.  Whatever the reassembly makes of them, the run completes, the bystanders are untouched and the victim exports at
        # most a prefix of what it sent
        if victim.kind == "tls":
            for rep in range(24 if thorough else 8):
                st = scene.stale_item(items, vep, frng, conn=0, kind=["keepalive-garbage", "keepalive-zero", "keepalive-last", "offset"][rep % 4])
                if st:
                    its = list(items[:st[0]]) + [st[1]] + list(items[st[0]:])
                    scene.stamp(its, random.Random(rep), "plain")
                    faults.append((st[2], its, keys, [], "prefix-rebased"))
    elif kind == "noise-http":
        for rep in range(3):
            nf = scene.http_on_443(frng, rep, v6=frng.random() < 0.5)
            pos = frng.randrange(0, len(items) + 1)
            its = list(items[:pos]) + [scene.Item(x.frame, conn=99, dir=x.dir, tag=x.tag, seg=x.seg) for x in nf.items] + list(items[pos:])
            scene.stamp(its, random.Random(rep), "plain")
            faults.append((f"plain HTTP exchange on port 443 inserted at {pos}", its, keys, [] if rep else ["-a"], "foreign-rebased"))
        # a TLS connection between two watched ports (client port 44330 or 443 by chance, or two -p ports): which side is the server cannot be told from the ports;
        # whatever TLExport makes of it, and of damaged variants of its first segments, the run completes and nobody else is touched (its keys are not in the log)
        cp, sp_, xo = frng.choice([(44330, 443, []), (443, 44330, []), (8443, 9443, ["-p", "8443", "9443"]), (443, 8443, ["-p", "8443"])])
        bep = tcpcap.Endpoints(frng.randbytes(6), frng.randbytes(6), bytes([10, 9, frng.randrange(256), 1]), bytes([10, 9, frng.randrange(256), 2]), cp, sp_, frng.randrange(1 << 32), frng.randrange(1 << 32))
        bf = gen.random_tls_flow(frng, 98, ep=bep, nmax=3, min_records=1)
        first = next(i for i, it in enumerate(bf.items) if it.seg is not None and it.seg.payload)
        for cutlen in (None, 1, 3, 5, 6, 12):
            bits = list(bf.items)
            if cutlen is not None:
                bits[first] = reframe(bits[first], bep, lambda pl, n_=cutlen: pl[:n_])
            pos = frng.randrange(0, len(items) + 1)
            its = list(items[:pos]) + [scene.Item(x.frame, conn=99, dir=x.dir, tag="both-ports", seg=x.seg) for x in bits] + list(items[pos:])
            scene.stamp(its, random.Random(cutlen or 0), "plain")
            faults.append((f"TLS connection between two watched ports ({cp}->{sp_}), first payload {'whole' if cutlen is None else f'shortened to {cutlen} bytes'}, inserted at {pos}",
                           its, keys, xo + (["-a"] if cutlen == 3 else []), "foreign-rebased"))
    elif kind in ("noise-udp", "noise-udp-short"):
        payloads = []
        if kind == "noise-udp-short":
            for ln in range(1, 9):
                for fb in (0x40, 0xC0, 0xC3, 0xF0, 0x80, 0x00, 0xFF, frng.randrange(256)):
                    payloads.append(bytes([fb]) + frng.randbytes(ln - 1))
            payloads = payloads if thorough else frng.sample(payloads, 24)
        else:
            for fb in (range(256) if thorough else frng.sample(range(256), 24)):
                ln = frng.choice([9, 20, 50, 300, 1200, 1500, frng.randrange(9, 1501)])
                body = frng.randbytes(ln - 1)
                if frng.random() < 0.4:
                    body = frng.choice([b"\x00\x00\x00\x01", b"\x00\x00\x00\x00", b"\x6b\x33\x43\xcf"]) + body[4:]     # v1 / version negotiation / v2
                payloads.append(bytes([fb]) + body)
        cids = set()
        for f in flows:
            if f.kind == "quic":
                cids.update(c for c in (f.conn.info.get("all_cids") or []) if c)
        for k, pl in enumerate(payloads):
            port = frng.choice([443, 443, 53, 4433, 50000])
            where = f"to port {port}"
            if k % 4 == 1:
                # from (or to) the server address of one of the scene's flows, other end unknown: only the connection IDs keep it out of that flow's session.
                # A payload that happens to start with one of the scene's (non-empty) connection IDs would be a legitimate match - not generated.
                f = frng.choice(flows)
                if any(pl[1:1 + len(c)] == c for c in cids):
                    pl = pl[:1] + bytes(b ^ 0x55 for b in pl[1:])
                fromsrv = frng.random() < 0.6
                ep2 = tcpcap.Endpoints(f.ep.cmac, f.ep.smac, frng.randbytes(len(f.ep.cip)), f.ep.sip, frng.randrange(1024, 65536), f.ep.sport, 0, 0)
                frame = scene.udp_frame(ep2, "s" if fromsrv else "c", pl)
                where = f"{'from' if fromsrv else 'to'} the server address of {f.label} (unknown peer)"
            elif k % 4 == 3:
                # between two hosts nobody knows, on ports no list names - but one of the two port numbers is the ephemeral client port of one of the scene's flows
                # (port numbers mean nothing across hosts); mostly captured before anything else
                f = frng.choice(flows)
                other = frng.choice([5353, 1900, 50001, 3478, frng.randrange(1024, 61000)])
                v6 = frng.random() < 0.3
                ep2 = tcpcap.Endpoints(frng.randbytes(6), frng.randbytes(6), frng.randbytes(16 if v6 else 4), frng.randbytes(16 if v6 else 4), other, f.ep.cport, 0, 0)
                tosrv = frng.random() < 0.7
                frame = scene.udp_frame(ep2, "c" if tosrv else "s", pl)
                where = f"between unknown hosts, {'to' if tosrv else 'from'} port {f.ep.cport} (the client port of {f.label}) {'from' if tosrv else 'to'} port {other}"
            else:
                frame = scene.udp_noise(frng, 1, k % 20, v6=frng.random() < 0.4, port=port, payloads=[pl]).items[0].frame
            pos = frng.randrange(0, len(items) + 1) if k % 4 != 3 or frng.random() < 0.3 else 0
            its = list(items[:pos]) + [scene.Item(frame, conn=99, dir="c", tag="udp-noise")] + list(items[pos:])
            scene.stamp(its, random.Random(k), "plain")
            faults.append((f"UDP datagram of {len(pl)} bytes (first byte {pl[0]:#04x}) {where} inserted at {pos}", its, keys, ["-a"] if k % 3 == 0 else [], "foreign-rebased"))
    bad, units, classes = [], 0, set()
    crash_tags = set()
    baselines = {}
    for label, its, ks, extra, oracle in faults:
        units += 1
        res, ffiles, fargv = e2e.run_capture(scene.capture(its), ks, extra)
        fail = e2e.run_failed(res)
        if fail:
            if fail.startswith("INCONCLUSIVE"):
                continue
            sig = res.crash_signature()
            crash_tags.add(f"crash:{sig}")
            bad.append((f"{label}: {fail[:900]}", ffiles, fargv))
            classes.add((kind, victim.label, "run-failed"))
            continue
        an = outparse.Analysis(res.out)
        rebased = oracle.endswith("-rebased")
        bkey = tuple(extra)
        if bkey not in baselines:
            if not extra:
                baselines[bkey] = base
            else:
                rb, _, _ = e2e.run_capture(scene.capture(items), keys, extra)
                baselines[bkey] = outparse.Analysis(rb.out) if not e2e.run_failed(rb) else None
        ref = baselines[bkey]
        probs = []
        for k, f in enumerate(flows[1:], start=1):
            if ref is None:
                break
            got = gen.flow_packets(an, f)
            want = gen.flow_packets(ref, f)
            if rebased:     # timestamps were re-assigned: compare frame contents without the capture time
                got, want = [x[1] for x in got], [x[1] for x in want]
            if got != want:
                probs.append(f"bystander {f.label} {f.ep.describe()}: {len(got)} exported packets, {len(want)} in the fault-free run (or contents differ)")
        if oracle.startswith("prefix") or oracle == "subseq":
            if oracle == "subseq":
                gotv = gen.flow_output(an, victim)
                for d in "cs":
                    g = [p for dd, p in gotv if dd == d]
                    w = [p for dd, p in victim.conn.expect if dd == d]
                    if not is_subsequence(g, w):
                        probs.append(f"victim {victim.label} {d}: exported datagrams are not an in-order subsequence of what was sent")
            else:
                probs += gen.check_flow_prefix(an, victim)
        if oracle.startswith("foreign") and not extra:
            mine = {k for f in flows for k in gen.flow_keys(f)}
            stray = [p for p in an.pkts if (p.src, p.sport, p.dst, p.dport) not in mine and p.payload]   # data-less packets carry no plaintext
            if stray or len(an.pkts) != an.nframes:
                probs.append(f"foreign traffic contributed {len(stray)} packets ({an.nframes - len(an.pkts)} unparsable) to the output: {an.errors[:1]}")
            if not extra:
                probs += [m for f in flows[:1] for m in gen.check_flow_exact(an, f)]
            elif ref is not None and [x[1] for x in gen.flow_packets(an, victim)] != [x[1] for x in gen.flow_packets(ref, victim)]:
                probs.append(f"{victim.label}: export changed in the presence of foreign traffic")
        classes.add((kind, victim.label, len(flows) - 1, oracle, "ok" if not probs else "bad"))
        if probs:
            bad.append((f"{label}: " + "; ".join(probs[:2]), dict(ffiles, **{"out.pcapng": res.out}), fargv))
    out.update(units=units, classes=sorted(classes, key=repr), nontrivial=units > 0, mon={"fault_runs": units, "baseline_runs": 1})
    out["tags"] += sorted(crash_tags)
    if bad:
        return dict(out, v="violated", msg=f"victim {victim.label}: {len(bad)} of {units} faults; first: {bad[0][0]}", files=dict(bad[0][1], argv="\n".join(bad[0][2])))
    return dict(out, v="held")
