"""C08 - cutting the capture at any point only removes a suffix of the export.  (fault enumeration over crash points)

Every prefix capture[:c], c = 0..N, of a capture is run through the real program.  Oracle, per exported conversation and direction: the stream exported from
capture[:c] must be a prefix of the stream exported from the full capture, its length must be non-decreasing in c (extending a capture never retracts data), no
conversation may appear that the full export does not have, and no run may fail.  For generated captures the full export is additionally compared with the
ground truth.  QUIC: per-direction concatenation of the exported datagram payloads.  The real OpenSSL captures shipped with the repository are cut the same way.
"""
import glob
import os
import random
import struct

from vlib import e2e, engine, gen, outparse, runner, scene, tcpcap


def split_blocks(buf):
    """pcapng -> (byte order, [(type, raw block bytes)])"""
    e = "<" if buf[8:12] == b"\x4d\x3c\x2b\x1a" else ">"
    out = []
    off = 0
    while off + 12 <= len(buf):
        bt, bl = struct.unpack_from(e + "II", buf, off)
        if bl < 12 or off + bl > len(buf):
            break
        out.append((bt, buf[off:off + bl]))
        off += bl
    return e, out


def streams_of(an):
    s = {("tcp",) + k: v for k, v in an.tcp.items()}
    for k, lst in an.udp.items():
        s[("udp",) + k] = b"".join(p for _, p in lst)
    return s


def corpus():
    out = []
    root = os.path.join(runner.REPO, "test")
    for f in sorted(glob.glob(root + "/testfiles/*.pcapng")) + sorted(glob.glob(root + "/incomplete_pcaps/*")):
        out.append(f)
    return out


def abort_mid_record(fl, rng):
    """The connection is torn down while one side is in the middle of sending: that side's data stops inside a record (its later segments were never sent), then the
    peer's closing alert follows.  -> True if the flow was changed"""
    ev = fl.conn.events
    if fl.kind != "tls" or not ev or ev[-1].kind not in ("alert", "eapp-alert"):
        return False
    d = "s" if ev[-1].dir == "c" else "c"
    apps = [e for e in ev if e.dir == d and e.kind == "app"]
    if not apps:
        return False
    bounds = {e.woff + len(e.wire) for e in ev if e.dir == d}
    cand = [j for j, it in enumerate(fl.items) if it.seg is not None and it.seg.dir == d and it.seg.payload and not it.seg.dup and it.seg.woff + len(it.seg.payload) > apps[0].woff
            and it.seg.woff + len(it.seg.payload) not in bounds]
    if not cand:
        return False
    # prefer a segment that also holds the end of an earlier record (a complete record in front of the unfinished one)
    good = [j for j in cand if any(fl.items[j].seg.woff < b < fl.items[j].seg.woff + len(fl.items[j].seg.payload) for b in bounds)]
    j = rng.choice(good or cand)
    fl.items = [it for i, it in enumerate(fl.items) if i <= j or not (it.seg is not None and it.seg.dir == d and it.seg.payload)]
    fl.aborted = True
    return True


def build(tier, seed):
    thorough = tier == "thorough"
    cases = [{"id": f"gen-{i}", "kind": "gen", "i": i} for i in range(300 if thorough else 24)]
    cases += [{"id": f"abort-{i}", "kind": "gen", "i": i, "abort": True} for i in range(300 if thorough else 16)]
    # scenes whose connections follow the demultiplexer's endpoint patterns (same hosts / ports in either role, mirrored tuples, twins): a later connection's first
    # packets must not retract or alter what an earlier cut already exported for another connection
    cases += [{"id": f"pat-{i}", "kind": "gen", "i": i, "pattern": gen.EP_PATTERNS[i % len(gen.EP_PATTERNS)]} for i in range(360 if thorough else 36)]
    files = corpus()
    for i, f in enumerate(files if thorough else files[::3]):
        cases.append({"id": "real-" + os.path.basename(f), "kind": "real", "path": f})

    def evalfn(case):
        return eval_case(case, random.Random(engine.subseed("C08", seed, case["id"])), thorough)

    def extra(results):
        return {"cut_positions_run": sum(r.get("units", 0) for r in results), "real_captures_used": len([r for r in results if r["id"].startswith("real-")])}

    return dict(cases=cases, evalfn=evalfn, level="fault_enumeration", min_nontrivial=20, extra=extra,
                rule="every cut position 0..N of each capture: generated scenes of 1-4 connections, single or following the demultiplexer's endpoint patterns (mirrored tuples, same hosts/ports in either role, IPv4/IPv6 twins ...) (every TLS version, CBC/RC4/AEAD, records spanning packets, coalesced "
                     "flights, QUIC with coalescing, 0-RTT and key updates, mixed and interleaved, 20% with duplicated/reordered segments, 30% with repacketized retransmissions, 30% full-duplex; 'abort' scenes: one side stops in the middle of a record and the peer's closing alert follows) and the real OpenSSL captures of "
                     "/repo/test. Class = (capture kind, flows, segmentation, cut count bucket); non-trivial = the full capture exported data and every prefix run was compared",
                assumptions=["none beyond the output oracle; ground truth is only used for the full capture of generated scenes"])


def eval_case(case, rng, thorough):
    if case["kind"] == "gen":
        pattern = case.get("pattern")
        n = rng.choice([2, 2, 2, 3, 4]) if pattern else rng.choice([1, 1, 2, 3])
        eps = gen.distinct_eps(rng, n, pattern) if pattern else [None] * n
        if pattern and rng.random() < 0.6:
            # related initial sequence numbers (hosts that booted together, ISN generators keyed by a clock): a later connection's numbers lie shortly below or above
            # an earlier connection's - segments filed under the wrong conversation then look like its retransmissions or like data in front of its first byte
            for e in eps[1:]:
                e.cisn = (eps[0].cisn + rng.choice([-1, 1]) * rng.randrange(1, 3000)) % (1 << 32)
                e.sisn = (eps[0].sisn + rng.choice([-1, 1]) * rng.randrange(1, 3000)) % (1 << 32)
        pquic = [0.0, 0.0, 0.4, 1.0][(case["i"] // len(gen.EP_PATTERNS)) % 4] if pattern else 0.35     # every pattern as all-TLS (twice), mixed and all-QUIC scenes
        flows = []
        for i in range(n):
            if rng.random() < pquic:
                flows.append(gen.random_quic_flow(rng, i, ep=eps[i], napp=rng.choice([2, 4, 6] if pattern else [2, 5, 8, 14]), path_swaps=rng.choice([0, 2, 3]), bulk=rng.random() < 0.4))      # two thirds with datagrams overtaken on the path
            else:
                flows.append(gen.random_tls_flow(rng, i, ep=eps[i], nmax=4 if pattern else 8, segkinds=("mss", "random", "whole", "records", "byte2", "tail1"), min_records=2, perturb=rng.random() < 0.2,
                                                 duplex=rng.random() < 0.3, repack=rng.random() < 0.3))
        aborted = 0
        if case.get("abort"):
            # at least one TLS connection of the scene ends with a close while the other side is mid-record (its ground truth is then not used: only the prefix relation)
            for tries in range(40):
                f = gen.random_tls_flow(rng, len(flows), nmax=8, segkinds=("mss", "random", "byte2", "tail1"), min_records=3, duplex=rng.random() < 0.3)
                if abort_mid_record(f, rng):
                    flows.append(f)
                    aborted = 1
                    break
        items = scene.merge(flows, rng, rng.choice(["random", "bursty", "concat", "concat"] if pattern else ["random", "bursty", "concat"]))
        scene.stamp(items, rng)
        keys = scene.keylog_text(flows, rng)
        N = len(items)

        def cap(c):
            return scene.capture(items[:c])
        label = [f.label + ":" + f.segkind + ("+aborted" if getattr(f, "aborted", False) else "") for f in flows] + (["pattern:" + pattern] if pattern else [])
    else:
        buf = open(case["path"], "rb").read()
        e, blocks = split_blocks(buf)
        pk_idx = [i for i, (bt, b) in enumerate(blocks) if bt in (6, 2, 3)]
        N = len(pk_idx)
        keys = open(os.path.join(runner.REPO, "test", "keylog.log"), "rb").read()

        def cap(c):
            drop = set(pk_idx[c:])
            return b"".join(b for i, (bt, b) in enumerate(blocks) if i not in drop)
        flows = []
        label = [os.path.basename(case["path"])]
    out = {"cls": [case["kind"]] + label + [min(N // 20, 6)], "tags": [f"kind:{case['kind']}"], "sample": {"case": case["id"], "capture": label, "packets": N}}
    full, files, argv = e2e.run_capture(cap(N), keys)
    fail = e2e.run_failed(full)
    if fail:
        return dict(out, v="inconclusive" if fail.startswith("INCONCLUSIVE") else "violated", msg="full capture: " + fail, files=files)
    an_full = outparse.Analysis(full.out)
    ref = streams_of(an_full)
    msgs = []
    inexact = None
    for f in flows:
        m = gen.check_flow_exact(an_full, f) if not getattr(f, "aborted", False) else None
        if m:
            inexact = m[0]      # C01/C02 business - but the prefix relation between the cuts is still checked below
    prev = {}
    units = 0
    cuts = range(0, N) if (thorough or N <= 120) else sorted(rng.sample(range(N), 120))
    badfiles = None
    for c in cuts:
        r, fcs, _ = e2e.run_capture(cap(c), keys)
        units += 1
        fail = e2e.run_failed(r)
        if fail:
            if fail.startswith("INCONCLUSIVE"):
                continue
            msgs.append(f"capture cut after {c} of {N} packets: {fail[:600]}")
            badfiles = fcs
            break
        st = streams_of(outparse.Analysis(r.out))
        for k, v in st.items():
            if k not in ref and v:
                msgs.append(f"cut after {c} of {N} packets: conversation {k[0]} {k[2]}->{k[4]} exports {len(v)} bytes but does not exist in the export of the full capture")
            elif v and not ref[k].startswith(v):
                i = next((j for j in range(min(len(v), len(ref[k]))) if v[j] != ref[k][j]), min(len(v), len(ref[k])))
                msgs.append(f"cut after {c} of {N} packets: {k[0]} {k[2]}->{k[4]} exports {len(v)} bytes that are not a prefix of the {len(ref[k])} bytes exported from the full capture (first difference at offset {i})")
            if len(v) < len(prev.get(k, b"")):
                msgs.append(f"cut after {c} packets: {k[0]} {k[2]}->{k[4]} exports {len(v)} bytes, the shorter capture exported {len(prev[k])}: extending the capture retracted data")
        for k, pv in prev.items():
            if pv and k not in st:
                msgs.append(f"cut after {c} packets: conversation {k[0]} {k[2]}->{k[4]} disappeared although a shorter capture exported {len(pv)} bytes of it")
        prev = st
        if msgs:
            badfiles = dict(fcs, **{"out_cut.pcapng": r.out, "out_full.pcapng": full.out})
            break
    out.update(units=units, mon={"prefix_runs": units}, nontrivial=any(ref.values()) and units > 0)
    if msgs:
        return dict(out, v="violated", msg=f"{label}: " + "; ".join(msgs[:3]) + (f" [the full capture is also not exported exactly: {inexact[:200]}]" if inexact else ""), files=badfiles)
    if inexact:
        return dict(out, v="inconclusive", msg="prefix relation held on all cuts, but the full capture is not exported exactly (C01/C02 business): " + inexact, nontrivial=False)
    return dict(out, v="held")
