"""C07 - exported packets keep the endpoints, direction and capture time of their origin.

Oracle (offline, over the output file, with the sender's ground truth): every exported packet of a connection must carry the MAC addresses, IP addresses
(and IP version) and client port of that connection, oriented sender -> receiver (acknowledgement packets receiver -> sender); every data packet is mapped to the
TLS record it belongs to by its offset in the direction's plaintext stream (parts never span records) and its integer-microsecond timestamp must be the
timestamp of one of the input packets that overlap that record's wire bytes; the three handshake packets carry the time of an input packet of the first exported
record.  QUIC: the timestamp of an output datagram must be exactly that of its input datagram.
"""
import random

from vlib import e2e, engine, gen, outparse, quicsynth, scene, suites, tcpcap


def record_packet_times(fl):
    """TLS flow -> per direction: [(poff, plen, {timestamps of the input packets overlapping the record's wire bytes})] for app records"""
    out = {"c": [], "s": []}
    segs = {"c": [], "s": []}
    for it in fl.items:
        s = it.seg
        if s is not None and s.payload:
            segs[s.dir].append((s.woff, s.woff + len(s.payload), it.ts))
    for e in fl.conn.events:
        if e.kind != "app":
            continue
        a, b = e.woff, e.woff + len(e.wire)
        ts = {t for (x, y, t) in segs[e.dir] if x < b and y > a}
        out[e.dir].append((e.poff, len(e.plain), ts))
    return out


def first_record_times(fl):
    """timestamps the synthetic handshake may carry: those of the input packets of the first exported record.  Records become exportable in capture
    order as each direction's contiguous byte prefix grows (the directions are independent, full duplex); two release disciplines are accepted - as soon
    as a record is complete, or when the buffered prefix ends on a record boundary - and a leading empty application record (it opens the conversation but
    yields no data packet) extends the allowed set up to the first record that carries data."""
    recs = {"c": [], "s": []}
    for e in fl.conn.events:
        recs[e.dir].append(e)
    segs = {"c": [], "s": []}
    for it in fl.items:
        if it.seg is not None and it.seg.payload:
            segs[it.seg.dir].append((it.seg.woff, it.seg.woff + len(it.seg.payload), it.ts))

    def times(e):
        return {t for (x, y, t) in segs[e.dir] if x < e.woff + len(e.wire) and y > e.woff}
    got = {"c": [], "s": []}
    prefix = {"c": 0, "s": 0}
    done_eager = {"c": 0, "s": 0}
    done_aligned = {"c": 0, "s": 0}
    eager, aligned = [], []
    for it in fl.items:
        s_ = it.seg
        if s_ is None or not s_.payload:
            continue
        d = s_.dir
        got[d].append((s_.woff, s_.woff + len(s_.payload)))
        moved = True
        while moved:
            moved = False
            for a, b in got[d]:
                if a <= prefix[d] < b:
                    prefix[d] = b
                    moved = True
        ends = [e.woff + len(e.wire) for e in recs[d]]
        while done_eager[d] < len(recs[d]) and ends[done_eager[d]] <= prefix[d]:
            eager.append(recs[d][done_eager[d]])
            done_eager[d] += 1
        if prefix[d] in ends:
            k = ends.index(prefix[d]) + 1
            aligned += recs[d][done_aligned[d]:k]
            done_aligned[d] = max(done_aligned[d], k)
    allowed = set()
    for order in (eager, aligned):
        for e in order:
            if e.kind == "app":
                allowed |= times(e)
                if e.plain:
                    break
    return allowed


def check_tls_flow(an, fl, mapargs=None):
    ep = fl.ep
    kc, ks = gen.flow_keys(fl, mapargs)
    sp = kc[3]
    msgs = []
    recs = record_packet_times(fl)
    off = {"c": 0, "s": 0}
    ri = {"c": 0, "s": 0}
    first_rec_times = None
    hs_times = []
    n = 0
    all_times = {it.ts for it in fl.items}
    for p in an.pkts:
        key = (p.src, p.sport, p.dst, p.dport)
        if p.proto != 6 or key not in (kc, ks):
            continue
        n += 1
        from_client = key == kc
        if p.v6 != ep.v6:
            msgs.append(f"packet at {p.ts}: IP version differs from the connection's")
        want_smac, want_dmac = (ep.cmac, ep.smac) if from_client else (ep.smac, ep.cmac)
        if (p.smac, p.dmac) != (want_smac, want_dmac):
            msgs.append(f"packet at {p.ts} ({'client' if from_client else 'server'}->): MACs {p.smac.hex()}->{p.dmac.hex()}, expected {want_smac.hex()}->{want_dmac.hex()}")
        if p.flags & 0x02 or (not p.payload and not p.flags & 0x08 and len(hs_times) < 3 and p.seq <= 1 and p.ack <= 1):
            hs_times.append(p.ts)
            continue
        d = "c" if from_client else "s"
        if not p.payload:
            if p.ts not in all_times:
                msgs.append(f"data-less packet with timestamp {p.ts} that no input packet of the connection has")
            continue
        # map the segment to its record by stream offset
        lst = recs[d]
        while ri[d] < len(lst) and (lst[ri[d]][1] == 0 or off[d] >= lst[ri[d]][0] + lst[ri[d]][1]):
            ri[d] += 1
        if ri[d] >= len(lst):
            msgs.append(f"{d} segment at stream offset {off[d]} beyond the data sent")
            break
        poff, plen, times = lst[ri[d]]
        if off[d] + len(p.payload) > poff + plen:
            msgs.append(f"{d} segment [{off[d]},{off[d] + len(p.payload)}) spans the record boundary at {poff + plen}")
        if p.ts not in times:
            msgs.append(f"{d} segment at stream offset {off[d]} (record at {poff}, {plen}B) has timestamp {p.ts}; the record was carried by input packets at {sorted(times)[:6]}")
        if first_rec_times is None:
            first_rec_times = times
        off[d] += len(p.payload)
    if hs_times and first_rec_times is not None:
        allowed = first_record_times(fl)
        for t in hs_times[:3]:
            if t not in allowed:
                msgs.append(f"synthetic handshake packet has timestamp {t}, the first exported record was carried by input packets at {sorted(allowed)[:6]}")
                break
    return msgs[:4], n


def check_quic_flow(an, fl, mapargs=None):
    ep = fl.ep
    kc, ks = gen.flow_keys(fl, mapargs)
    want = [(it.dir, it.ts, it.seg.stream) for it in fl.items if it.seg.stream]
    got = []
    msgs = []
    for p in an.pkts:
        key = (p.src, p.sport, p.dst, p.dport)
        if p.proto != 17 or key not in (kc, ks):
            continue
        from_client = key == kc
        want_smac, want_dmac = (ep.cmac, ep.smac) if from_client else (ep.smac, ep.cmac)
        if (p.smac, p.dmac) != (want_smac, want_dmac):
            msgs.append(f"datagram at {p.ts}: MACs {p.smac.hex()}->{p.dmac.hex()}, expected {want_smac.hex()}->{want_dmac.hex()}")
        if p.v6 != ep.v6:
            msgs.append(f"datagram at {p.ts}: IP version differs from the connection's")
        if p.payload:
            got.append(("c" if from_client else "s", p.ts, p.payload))
    if got != want:
        i = next((k for k in range(min(len(got), len(want))) if got[k] != want[k]), min(len(got), len(want)))
        g = got[i] if i < len(got) else None
        w = want[i] if i < len(want) else None
        msgs.append(f"datagram {i}: exported (dir, ts, len) {None if g is None else (g[0], g[1], len(g[2]))}, input datagram {None if w is None else (w[0], w[1], len(w[2]))}")
    return msgs[:4], len(got)


def build(tier, seed):
    thorough = tier == "thorough"
    cases = [{"id": f"case-{i}", "i": i} for i in range(15000 if thorough else 700)]

    # several connections in one capture: every exported packet carries the addresses of ITS connection, also when connections share addresses
    cases += [{"id": f"scene-{i}", "i": i, "scene": True} for i in range(3000 if thorough else 120)]

    def evalfn(case):
        rng = random.Random(engine.subseed("C07", seed, case["id"]))
        return eval_scene(case, rng) if case.get("scene") else eval_case(case, rng)

    return dict(cases=cases, evalfn=evalfn, level="exploration", min_nontrivial=150,
                rule="TLS and QUIC connections as in C01/C02 with random MAC/IP/port values (all-zero, broadcast, ASCII-looking MACs, 0.0.0.0, 255.255.255.255, IPv6 with "
                     "embedded zeros), every segmentation class (records spanning 1..many packets), timestamp styles {plain, ...000001/...999999 edges, year 2100, 2^30/2^31 "
                     "second boundaries, dense +1us}, -m variants; scenes of 2-4 connections whose endpoints share hosts, ports or addresses (same addresses with other MACs, mirrored roles, IPv4/IPv6 twins). Class = (protocol, version, segmentation, timestamp style, ip version, mapping); non-trivial = at least one "
                     "exported data packet was attributed to its record / datagram and checked",
                assumptions=["timestamps below year 2242 (float64 seconds keep microsecond resolution)"])


def eval_case(case, rng):
    quic = rng.random() < 0.35
    style = rng.choice(scene.TS_STYLES + (["coarse"] if not quic else []))
    # every eleventh case twice: the exported server port equals the client's port (bare -m with a client on port 8080; -m 443:<client port>) - the two ends of the
    # exported conversation then differ in their addresses only
    coincide = {4: "bare", 5: "pair"}.get(case["i"] % 11)
    ep = None
    if coincide:
        for _ in range(20):
            ep = tcpcap.random_ep(rng, odd=0.0)
            if ep.cip != ep.sip:
                break
        if coincide == "bare":
            ep.cport = 8080
    if quic:
        fl = gen.random_quic_flow(rng, ep=ep, napp=rng.choice([3, 8, 15]))
    else:
        fl = gen.random_tls_flow(rng, ep=ep, nmax=12, big=rng.random() < 0.3, segkinds=tcpcap.CUT_KINDS, min_records=1, perturb=rng.random() < 0.35, duplex=rng.random() < 0.4)
    items = scene.merge([fl], rng, "concat")
    scene.stamp(items, rng, style)
    extra, mapargs = [], None
    if rng.random() < 0.3:
        mapargs = [] if rng.random() < 0.5 else [f"443:{tcpcap.map_target(rng)}"]
        extra = ["-m"] + mapargs
    if coincide:
        mapargs = [] if coincide == "bare" else [f"{fl.ep.sport}:{fl.ep.cport}"]
        extra = ["-m"] + mapargs
    meta = case["i"] % 5 == 3       # a fifth of the cases with -a: handshake material is exported too, and its packets have capture times as well
    if meta:
        extra = extra + ["-a"]
    res, files, argv = e2e.run_capture(scene.capture(items), scene.keylog_text([fl], rng), extra)
    out = {"cls": [fl.kind, fl.label.split("-")[1], fl.segkind, style, "v6" if fl.ep.v6 else "v4", ("map-to-client-port" if coincide else "map") if mapargs is not None else "", "-a" if meta else ""],
           "tags": [f"ts:{style}", f"seg:{fl.segkind}", f"proto:{fl.kind}"] + (["map:target-equals-client-port"] if coincide else []),
           "sample": {"case": case["id"], "flow": fl.label, "endpoints": fl.ep.describe(), "macs": fl.ep.cmac.hex() + "/" + fl.ep.smac.hex(), "segmentation": fl.segkind,
                      "timestamps": [it.ts for it in items][:6], "args": extra}}
    fail = e2e.run_failed(res)
    if fail:
        return dict(out, v="inconclusive" if fail.startswith("INCONCLUSIVE") else "violated", msg=fail, files=files)
    an = outparse.Analysis(res.out)
    if meta:
        # with -a the stream also holds handshake bytes, which the provenance oracle does not model; what still must hold for EVERY exported packet: its
        # timestamp is the capture time of an input packet of the connection - of the same direction when it carries payload
        kc, ks = gen.flow_keys(fl, mapargs)
        times = {"c": {it.ts for it in items if it.dir == "c"}, "s": {it.ts for it in items if it.dir == "s"}}
        msgs, n = [], 0
        for p in an.pkts:
            key = (p.src, p.sport, p.dst, p.dport)
            if key not in (kc, ks):
                continue
            d = "c" if key == kc else "s"
            n += 1
            ok = p.ts in times[d] if p.payload else p.ts in (times["c"] | times["s"])
            if not ok and not msgs:
                msgs.append(f"-a export: {'client' if d == 'c' else 'server'} packet with {len(p.payload)} payload bytes has timestamp {p.ts}, which is not the capture time of any "
                            f"{'input packet of that direction' if p.payload else 'input packet'} (capture runs from {min(times['c'] | times['s'])} to {max(times['c'] | times['s'])})")
    else:
        msgs, n = (check_quic_flow if quic else check_tls_flow)(an, fl, mapargs)
    mine = set(gen.flow_keys(fl, mapargs))
    stray = [p for p in an.pkts if (p.src, p.sport, p.dst, p.dport) not in mine]
    if stray:
        p = stray[0]
        msgs.append(f"exported packet {p.src.hex()}:{p.sport}->{p.dst.hex()}:{p.dport} does not carry the connection's addresses/ports ({fl.ep.describe()}, exported server port {list(mine)[0][3]})")
    out["mon"] = {"exported_packets_attributed": n}
    out["nontrivial"] = n > 0
    if msgs:
        return dict(out, v="violated", msg=f"{fl.label} {fl.segkind} ts={style}: " + "; ".join(msgs[:3]), files=dict(files, **{"out.pcapng": res.out}))
    return dict(out, v="held")


def eval_scene(case, rng):
    n = rng.choice([2, 2, 3, 4])
    pattern = rng.choice(["same-hosts-other-macs", "same-hosts-other-macs", "same-client-host", "mirrored", "v4-v6-twins", "same-server", "small-pool"])
    eps = gen.distinct_eps(rng, n, pattern)
    flows = []
    for i, ep in enumerate(eps):
        if rng.random() < 0.3:
            flows.append(gen.random_quic_flow(rng, i, ep=ep, napp=rng.choice([3, 6])))
        else:
            flows.append(gen.random_tls_flow(rng, i, ep=ep, nmax=6, segkinds=("mss", "random", "records", "whole"), min_records=1))
    items = scene.merge(flows, rng, rng.choice(["concat", "random", "bursty", "roundrobin"]))
    style = rng.choice(scene.TS_STYLES)
    scene.stamp(items, rng, style)
    extra, mapargs = [], None
    if rng.random() < 0.25:
        mapargs = [] if rng.random() < 0.5 else [f"443:{tcpcap.map_target(rng)}"]
        extra = ["-m"] + mapargs
    res, files, argv = e2e.run_capture(scene.capture(items), scene.keylog_text(flows, rng), extra)
    out = {"cls": ["scene", pattern, n, tuple(sorted({f.kind for f in flows})), "map" if mapargs is not None else ""], "tags": [f"scene:{pattern}"],
           "sample": {"case": case["id"], "connections": [f.label + " " + f.ep.describe() + " macs " + f.ep.cmac.hex() + "/" + f.ep.smac.hex() for f in flows], "args": extra}}
    fail = e2e.run_failed(res)
    if fail:
        return dict(out, v="inconclusive" if fail.startswith("INCONCLUSIVE") else "violated", msg=fail, files=files)
    an = outparse.Analysis(res.out)
    msgs, n_att, mine = [], 0, set()
    for fl in flows:
        m, k = (check_quic_flow if fl.kind == "quic" else check_tls_flow)(an, fl, mapargs)
        n_att += k
        mine |= set(gen.flow_keys(fl, mapargs))
        msgs += [f"{fl.label} {fl.ep.describe()}: {x}" for x in m[:2]]
    stray = [p for p in an.pkts if (p.src, p.sport, p.dst, p.dport) not in mine]
    if stray:
        p = stray[0]
        msgs.append(f"exported packet {p.src.hex()}:{p.sport}->{p.dst.hex()}:{p.dport} carries the addresses/ports of none of the {len(flows)} connections")
    out["mon"] = {"exported_packets_attributed": n_att}
    out["nontrivial"] = n_att > 0
    if msgs:
        return dict(out, v="violated", msg=f"{pattern}, ts={style}: " + "; ".join(msgs[:3]), files=dict(files, **{"out.pcapng": res.out}))
    return dict(out, v="held")
