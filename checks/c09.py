"""C09 - the export depends only on which secrets are supplied, not on how.

Oracle: byte equality of the output file with the baseline delivery of the same secret set (-s file, LF line ends, original line order, lower-case hex).
Deliveries: every permutation of the lines (exhaustive up to 5 lines, random beyond); LF / CRLF / mixed line ends; comment, blank, unrelated and duplicate
lines; upper- and mixed-case hex digits in the client-random and secret fields; decryption-secrets blocks before the packets, between them or after them (the
latter two for TLS only, as the property states); the log split over 1..4 DSBs (including a DSB holding a single short line); file + DSB combined; DSB as the only
key source with no -s option, from several working directories; both pcapng byte orders.
"""
import itertools
import os
import random
import struct

from vlib import corpus, e2e, engine, gen, netsynth as ns, outparse, runner, scene, tcpcap


def build(tier, seed):
    thorough = tier == "thorough"
    cases = [{"id": f"scene-{i}", "i": i} for i in range(260 if thorough else 40)]
    real = corpus.tls_captures() + corpus.quic_captures(big=False)
    for name, path, _, _ in (real if thorough else real[2::6]):         # the repository's real captures with their real key logs
        cases.append({"id": f"real-{name}", "real": name})

    def evalfn(case):
        return eval_case(case, random.Random(engine.subseed("C09", seed, case["id"])), thorough)

    return dict(cases=cases, evalfn=evalfn, level="exploration", min_nontrivial=25,
                rule="per scene (1-3 TLS/QUIC connections) the baseline delivery and ~25 (quick) / ~60 (thorough) alternative deliveries of the same secret set: line "
                     "permutations, LF/CRLF/mixed, decorations (comments, blanks, unrelated and duplicate lines), upper/mixed-case hex, DSB placement and splitting, file+DSB, "
                     "DSB only without -s from three working directories, big-endian pcapng. Class = (scene kind, delivery kind, outcome); non-trivial = baseline exported "
                     "data and the variant's output file was compared byte for byte",
                assumptions=["the decorations are ASCII (decryption-secrets blocks are ASCII by definition)"])


def deliveries(rng, lines, quic, thorough, big=False):
    """yield (label, keyfile bytes or None, dsb placement list [(position, bytes)], opts) ; position: 'before' | 'after' | int index"""
    L = list(lines)
    text = lambda ls, eol="\n": (eol.join(ls) + eol).encode()
    out = []
    if len(L) <= 5:
        perms = list(itertools.permutations(L))
        for p in (perms if thorough else rng.sample(perms, min(len(perms), 6))):
            out.append(("permutation", text(list(p)), [], {}))
    for _ in range(6 if thorough else 2):
        p = L[:]
        rng.shuffle(p)
        out.append(("permutation", text(p), [], {}))
    out.append(("crlf", text(L, "\r\n"), [], {}))
    out.append(("mixed-eol", b"".join((l + rng.choice(["\n", "\r\n"])).encode() for l in L), [], {}))
    out.append(("no-final-eol", "\n".join(L).encode(), [], {}))
    deco = []
    for l in L:
        if rng.random() < 0.5:
            deco.append(rng.choice(["# a comment", "", "   ", "#CLIENT_RANDOM 00 00", "FOO bar baz", "CLIENT_RANDOM " + "ab" * 32 + " " + "cd" * 48,
                                    "SERVER_TRAFFIC_SECRET_0 " + rng.randbytes(32).hex() + " " + rng.randbytes(32).hex(), "RSA 0011223344556677 " + "00" * 48]))
        deco.append(l)
        if rng.random() < 0.3:
            deco.append(l)          # duplicate line
    out.append(("decorated", text(deco), [], {}))
    out.append(("duplicated-log", text(L + L), [], {}))
    # comment lines that look exactly like key lines of this very connection but carry other secrets (an older run's commented-out lines): a comment never
    # supplies a secret, whether it stands before the real line (TLS <= 1.2 takes the first match) or after it (TLS 1.3 / QUIC take the last)
    def stale(l):
        a, b, c = l.split(" ")
        return f"{a} {b} {rng.randbytes(len(c) // 2).hex()}"
    cm = []
    for l in L:
        cm += [rng.choice(["#", "# ", "#\t", "## "]) + stale(l), l, rng.choice(["#", "# "]) + stale(l)]
    out.append(("commented-out-stale-lines", text(cm), [], {}))
    out.append(("commented-out-stale-lines-dsb", None, [("before", text(cm))], {}))

    def upcase(l, which):
        a, b, c = l.split(" ")
        if which in ("random", "both"):
            b = b.upper()
        if which in ("secret", "both"):
            c = c.upper()
        if which == "mixed":
            b = "".join(ch.upper() if rng.random() < 0.5 else ch for ch in b)
            c = "".join(ch.upper() if rng.random() < 0.5 else ch for ch in c)
        return f"{a} {b} {c}"
    for which in ("random", "secret", "both", "mixed"):
        out.append((f"uppercase-hex-{which}", text([upcase(l, which) for l in L]), [], {}))
    # a long key log in which one of the connection's own lines straddles a power-of-two offset of the file (whatever a reader's block size is: 4 KiB pages, 8 KiB
    # and 64 KiB buffers): unrelated complete lines and a comment line in front of it are sized so that the boundary falls inside the label, inside the client random,
    # right after it, and inside the secret after an even and an odd number of digits
    def unrelated():
        return "CLIENT_RANDOM " + rng.randbytes(32).hex() + " " + rng.randbytes(48).hex()
    for B in ((4096, 8192, 65536) if thorough else (rng.choice([4096, 8192]), 65536)):
        for li in ([0, len(L) - 1] if thorough and len(L) > 1 else [rng.randrange(len(L))]):
            own = L[li]
            lab = len(own.split(" ")[0])
            for off in sorted({1, lab + 1 + 10, lab + 1 + 64, lab + 66 + 2, lab + 66 + 7, lab + 66 + rng.randrange(8, 60) * 2, len(own) - 1} if thorough else {lab + 66 + 2 * rng.randrange(1, 30), lab + 66 + 7, rng.randrange(1, lab + 66)}):
                want = B - off               # octets in front of the line
                pre = []
                while want - sum(len(x) + 1 for x in pre) > 400:
                    pre.append(unrelated())
                rest_ = want - sum(len(x) + 1 for x in pre)
                pre.append("#" + "-" * (rest_ - 2))
                body = pre + [own] + [l for j, l in enumerate(L) if j != li]
                assert len(("\n".join(pre) + "\n").encode()) == want
                out.append((f"file-line-straddles-{B}", text(body), [], {}))
    # DSB deliveries
    out.append(("dsb-before", None, [("before", text(L))], {}))
    out.append(("dsb-before+file", text(L[: len(L) // 2]) if len(L) > 1 else b"\n", [("before", text(L[len(L) // 2:]))], {}))
    out.append(("dsb-before-crlf", None, [("before", text(L, "\r\n"))], {}))
    k = rng.randrange(1, 5)
    parts = [[] for _ in range(k)]
    for l in L:
        parts[rng.randrange(k)].append(l)
    out.append((f"dsb-split-{k}", None, [("before", text(p) if p else b"#\n") for p in parts], {}))
    noeol = lambda ls: "\n".join(ls).encode() if ls else b"#"
    out.append((f"dsb-split-{k}-no-final-eol", None, [("before", noeol(p)) for p in parts], {}))
    out.append(("dsb-per-line-no-final-eol", None, [("before", l.encode()) for l in L], {}))
    if not quic:
        out.append(("dsb-per-line-no-final-eol-scattered", None, [(None, l.encode()) for l in L], {}))
    out.append(("dsb-no-final-eol+file", text(L[len(L) // 2:]) if len(L) > 1 else b"\n", [("before", noeol(L[: max(1, len(L) // 2)]))], {}))
    out.append(("dsb-short-line-block", None, [("before", b"#\n"), ("before", text(L))], {}))
    # the capture also carries secrets of other protocols (ZigBee keys are 16 binary octets, WireGuard logs are text): they are not TLS key-log text and supply nothing
    out.append(("dsb-among-foreign-secrets", None, [("before-raw", struct.pack("<II", 0x5A4E574B, 16) + bytes([0x80 | rng.randrange(128)]) + rng.randbytes(15)), ("before", text(L)),
                                                    ("before-raw", struct.pack("<II", 0x57474B4C, 28) + b"LOCAL_STATIC_PRIVATE_KEY = x\n")], {}))
    out.append(("dsb-before-bigendian", None, [("before", text(L))], {"le": False}))
    out.append(("file-bigendian", text(L), [], {"le": False}))
    out.append(("dsb-before-idb", None, [("pre-idb", text(L))], {}))
    out.append(("dsb-before-idb+after-idb", None, [("pre-idb", text(L[: len(L) // 2]) if len(L) > 1 else b"#\n"), ("before", text(L[len(L) // 2:]))], {}))
    out.append(("dsb-before-idb+file", text(L[len(L) // 2:]) if len(L) > 1 else b"\n", [("pre-idb", text(L[: max(1, len(L) // 2)]))], {}))
    for cwd in ("/", "/dev/shm", "scratch"):
        out.append((f"dsb-only-no-s-cwd-{cwd.strip('/') or 'root'}", None, [("before", text(L))], {"no_s": True, "cwd": cwd}))
    if not quic:
        out.append(("dsb-after", None, [("after", text(L))], {}))
        out.append(("dsb-between", None, [(None, text(L))], {}))
        out.append(("dsb-between-split", None, [(None, text(L[:1])), ("after", text(L[1:]) if L[1:] else b"#\n")], {}))
        out.append(("dsb-after-no-s", None, [("after", text(L))], {"no_s": True, "cwd": "/"}))
    if big:
        # a long-lived key log (a browser's SSLKEYLOGFILE of a working day): the connection's lines somewhere among thousands of other connections' lines - as a file,
        # as one block of several hundred kilobytes (a secrets block is not bounded by the snap length), and as a few blocks
        nl = rng.choice([2300, 3000] + ([9000] if thorough else []))
        other = []
        while len(other) < nl:
            r = rng.randbytes(32).hex()
            if rng.random() < 0.5:
                other.append(f"CLIENT_RANDOM {r} {rng.randbytes(48).hex()}")
            else:
                other += [f"{lab} {r} {rng.randbytes(32).hex()}" for lab in ("CLIENT_HANDSHAKE_TRAFFIC_SECRET", "SERVER_HANDSHAKE_TRAFFIC_SECRET", "CLIENT_TRAFFIC_SECRET_0", "SERVER_TRAFFIC_SECRET_0")]
        pos = sorted(rng.randrange(len(other) + 1) for _ in L)
        biglog = list(other)
        for j, (p_, l) in enumerate(zip(pos, L)):
            biglog.insert(p_ + j, l)
        out.append((f"big-log-file-{nl}", text(biglog), [], {}))
        out.append((f"big-log-one-dsb-{nl}", None, [("before", text(biglog))], {}))
        third = len(biglog) // 3
        out.append((f"big-log-three-dsbs-{nl}", None, [("before", text(biglog[:third])), ("before", text(biglog[third:2 * third])), ("before", text(biglog[2 * third:]))], {}))
        if not quic:
            out.append((f"big-log-one-dsb-after-{nl}", None, [("after", text(biglog))], {}))
    return out


def eval_case(case, rng, thorough):
    xopts = []
    if case.get("real"):
        name, path, keytext, xopts = next(c for c in corpus.tls_captures() + corpus.quic_captures(big=False) + corpus.quic_captures(big=True) if c[0] == case["real"])
        quic = bool(xopts)
        pk = [it for it in corpus.load(path) if it[0] == "pkt"]
        lines = [l for l in keytext.decode("ascii", "replace").replace("\r", "").split("\n") if len(l.split(" ")) == 3 and not l.startswith("#")]
        if len(lines) > 40:         # keep the connection's own lines and a sample of the others (the deliveries are run ~30 times)
            rnds = corpus.client_randoms(pk)
            own = [l for l in lines if l.split(" ")[1].lower() in rnds]
            if own:
                lines = own + rng.sample([l for l in lines if l not in own], min(20, len(lines) - len(own)))
        labels, n = [case["real"]], 1
    else:
        n = rng.choice([1, 1, 2, 3])
        flows = [gen.random_quic_flow(rng, i, napp=4) if rng.random() < 0.35 else gen.random_tls_flow(rng, i, nmax=5, min_records=1) for i in range(n)]
        quic = any(f.kind == "quic" for f in flows)
        items = scene.stamp(scene.merge(flows, rng, rng.choice(["random", "concat"])), rng)
        lines = [l for f in flows for l in f.keylog]
        pk = [("pkt", it.ts, it.frame) for it in items]
        labels = [f.label for f in flows]
    base, files, argv = e2e.run_capture(ns.pcapng(pk), ("\n".join(lines) + "\n").encode(), xopts)
    out = {"cls": ["real" if case.get("real") else "quic" if quic else "tls", n], "tags": [], "sample": {"case": case["id"], "flows": labels, "key_lines": len(lines)}}
    fail = e2e.run_failed(base)
    if fail:
        return dict(out, v="inconclusive" if fail.startswith("INCONCLUSIVE") else "violated", msg="baseline delivery: " + fail, files=files)
    ab = outparse.Analysis(base.out)
    nontrivial = bool(ab.pkts)
    bad, classes, units = [], set(), 0
    dlist = deliveries(rng, lines, quic, thorough, big=not case.get("real") and case.get("i", 1) % 4 == 0)
    if not case.get("real") and len(flows) > 1:
        # one DSB per connection, each placed right in front of its own connection's first packet (a capture put together connection by connection): every DSB
        # is "before the packets" of the connection it serves, but behind the handshakes of the connections before it
        dlist.append(("dsb-per-connection-in-front-of-its-packets", None, "per-connection", {}))
        dlist.append(("dsb-per-connection-in-front-of-its-packets+file", ("\n".join(flows[0].keylog) + "\n").encode(), "per-connection-rest", {}))
    for label, keyfile, dsbs, opts in dlist:
        blocks = list(pk)
        if isinstance(dsbs, str):
            blocks, seen = [], set()
            for it, b in zip(items, pk):
                if it.conn not in seen and 0 <= it.conn < len(flows):
                    seen.add(it.conn)
                    if not (dsbs == "per-connection-rest" and it.conn == 0):
                        blocks.append(("dsb", ("\n".join(flows[it.conn].keylog) + "\n").encode()))
                blocks.append(b)
            dsbs = []
        pre = [("dsb", d_) for p_, d_ in dsbs if p_ == "pre-idb"]
        dsbs = [(p_, d_) for p_, d_ in dsbs if p_ != "pre-idb"]
        for pos, data in dsbs:
            if pos == "before-raw":         # a whole secrets-block body (secrets type, length, data) of another protocol, in front of everything
                blocks.insert(0, ("raw", 10, data + b"\x00" * ((-len(data)) % 4)))
                continue
            if pos == "before":
                idx = 0
            elif pos == "after":
                idx = len(blocks)
            else:
                idx = rng.randrange(1, len(blocks)) if len(blocks) > 1 else len(blocks)
            blocks.insert(idx, ("dsb", data))
        if [p for p, _ in dsbs].count("before") > 1:      # keep several leading DSBs in their order
            lead = [("dsb", d) for p, d in dsbs if p == "before"]
            blocks = lead + [b for b in blocks if not (b[0] == "dsb" and b in lead)]
        cap = ns.pcapng(blocks, le=opts.get("le", True), pre_idb=pre)
        cwd = opts.get("cwd")
        if cwd == "scratch":
            cwd = None
        units += 1
        r, f2, a2 = e2e.run_capture(cap, keyfile, xopts, no_keylog_opt=opts.get("no_s", False) or keyfile is None, cwd=cwd)
        kind = label.rstrip("0123456789-")
        fail = e2e.run_failed(r)
        if fail:
            if fail.startswith("INCONCLUSIVE"):
                continue
            bad.append((f"delivery '{label}': {fail[:500]}", dict(f2, argv="\n".join(a2))))
            classes.add((kind, "failed"))
            continue
        same = r.out == base.out
        classes.add((kind, "same" if same else "differs"))
        if not same:
            a = outparse.Analysis(r.out)
            bad.append((f"delivery '{label}': output differs from the baseline delivery ({len(a.pkts)} packets / {sum(len(v) for v in a.tcp.values())} TCP bytes / "
                        f"{sum(len(v) for v in a.udp.values())} datagrams vs {len(ab.pkts)} / {sum(len(v) for v in ab.tcp.values())} / {sum(len(v) for v in ab.udp.values())})",
                        dict(f2, argv="\n".join(a2), **{"out.pcapng": r.out, "out_baseline.pcapng": base.out})))
    # delivery with a history: the key-log file stands at a path from which an earlier run() of the same process read *other* secrets - the file rewritten in place, other
    # connections' lines of exactly the same size (same labels and lengths, other values), or a shorter log.  What counts is what the file holds now.
    keytrue = ("\n".join(lines) + "\n").encode()
    for hk in (["same-size", "shorter"] if thorough or case.get("i", 0) % 2 == 0 else ["same-size"]):
        other = [" ".join(l.split(" ")[:1] + [rng.randbytes(len(x) // 2).hex() for x in l.split(" ")[1:3]]) for l in lines]
        if hk == "shorter":
            other = other[:max(0, len(other) - 1)]
        fh = {"in.pcapng": ns.pcapng(pk), "k_true.log": keytrue, "k_other.log": ("\n".join(other) + "\n").encode() if other else b"\n"}
        runs = [["@cp:{dir}/k_other.log:{dir}/keys.log", "-i", "{dir}/in.pcapng", "-o", "{dir}/out_earlier.pcapng", "-s", "{dir}/keys.log"] + xopts,
                ["@cp:{dir}/k_true.log:{dir}/keys.log", "-i", "{dir}/in.pcapng", "-o", "{dir}/out.pcapng", "-s", "{dir}/keys.log"] + xopts]
        r = runner.run_tlexport(fh, runs)
        units += 1
        fail = e2e.run_failed(r)
        if fail and fail.startswith("INCONCLUSIVE"):
            continue
        kind = "file-at-a-path-read-before-" + hk
        same = not fail and r.out == base.out
        classes.add((kind, "failed" if fail else "same" if same else "differs"))
        if not same:
            bad.append((f"delivery '{kind}' (an earlier run() of the process read a key log with other secrets from the same path): " + (fail[:400] if fail else "output differs from the baseline delivery"),
                        dict(fh, argv="\n".join(" ".join(x) for x in runs))))
    out.update(units=units, classes=[list(c) + out["cls"] for c in sorted(classes)], nontrivial=nontrivial and units > 0, mon={"deliveries_compared": units})
    out["tags"] = sorted({f"delivery:{c[0]}" for c in classes})
    if bad:
        return dict(out, v="violated", msg=f"{labels}: {len(bad)} of {units} deliveries; first: {bad[0][0]}", files=bad[0][1])
    return dict(out, v="held")
