"""C14 - every cipher-suite code point resolves to the parameters its IANA name denotes (exhaustive over 65 536).

Oracle: a contract on the real `tlexport.cipher_suite_parser.split_cipher_suite`, evaluated for every two-byte value:
  accepted (result is not None)  =>  the code point is in the frozen IANA registry copy, the repository's table names it as
                                     the registry does, and bulk cipher class / key length / AEAD-ness / MAC-or-PRF hash / tag
                                     length equal what the independent structural name parser derives from the registry name;
  not accepted                   =>  the call returned None without raising (reported unsupported, nothing guessed).
"""
import logging

from vlib import suites


def _expect(p):
    cipher = {"AES": {"CBC": "AES", "GCM": "AESGCM", "CCM": "AESCCM"}.get(p["mode"]), "CAMELLIA": "Camellia" if p["mode"] == "CBC" else None,
              "3DES": "TripleDES", "IDEA": "IDEA", "RC4": "ARC4", "CHACHA20": "ChaCha20Poly1305"}[p["cipher"]]
    mac = {"sha1": "SHA1", "sha256": "SHA256", "sha384": "SHA384", "md5": "MD5"}[p["mac"] if not p["aead"] else p["prf"]]
    return {"cipher": cipher, "key_len": p["key_len"], "aead": 1 if p["aead"] else 0, "hash": mac, "tag": p["tag_len"] or 16}


def contract(code, result, table):
    """-> None if the contract holds for this code point, else a message"""
    key = code.to_bytes(2, "big")
    if result is None:
        return None
    reg = suites.REGISTRY.get(code)
    if reg is None:
        return f"code point {code:#06x} is accepted but is not a registered IANA cipher suite"
    if table is not None and key in table and table[key] != reg:
        return f"code point {code:#06x} is named {table[key]!r} but IANA registers it as {reg!r}"
    try:
        p = suites.parse_name(reg)
    except suites.NotDrivable:
        return f"code point {code:#06x} ({reg}) is accepted although its name denotes a bulk cipher/MAC TLExport cannot resolve"
    e = _expect(p)
    try:
        got = {"cipher": result["CryptoAlgo"][0].__name__, "key_len": result["KeyLength"], "aead": result["CryptoAlgo"][1],
               "hash": result["MAC"].__name__, "tag": result["TagLength"]}
        mode_aead = result["Mode"][1]
    except Exception as ex:  # malformed result
        return f"code point {code:#06x} ({reg}): result not in the documented shape: {ex!r} {result!r}"
    if got != e:
        return f"code point {code:#06x} ({reg}): resolved to {got}, name denotes {e}"
    if bool(mode_aead) != bool(e["aead"]):
        return f"code point {code:#06x} ({reg}): Mode AEAD flag {mode_aead} but name denotes aead={e['aead']}"
    return None


def quic_table(case):
    """TLExport has a second resolver: QuicSession.set_tls_decryptors maps the suite of a QUIC handshake to (hash, AEAD class, key length); the AEAD objects it
    builds use the library's 16-byte tag.  Same contract, all 65 536 code points: what it resolves must be what the IANA name denotes - incl. the tag length, so a
    *_CCM_8 suite cannot be resolved by this path - everything else must be reported as unknown."""
    from checks.c16 import make_session
    try:
        sess = make_session()
        sess.set_tls_decryptors
    except Exception as ex:       # constructor / method moved (refactoring): this observation point is gone
        return {"v": "inconclusive", "cls": ["quic-table"], "nontrivial": False, "msg": f"QUIC suite resolver not observable: {ex!r}"}
    bad, accepted, unobs = [], [], 0
    for code in range(case["lo"], case["hi"]):
        try:
            sess.cipher = sess.hash_fun = sess.key_length = None
            sess.can_decrypt = True
            sess.keys, sess.decryptors = {}, {}
        except Exception:
            unobs += 1
        try:
            sess.set_tls_decryptors(bytes(32), code.to_bytes(2, "big"))
        except Exception:
            pass                    # no secrets were supplied: what matters is what the suite was resolved to before the keys were looked up
        cipher, hfun, klen = getattr(sess, "cipher", None), getattr(sess, "hash_fun", None), getattr(sess, "key_length", None)
        if cipher is None and hfun is None and klen is None:
            continue                # reported as unknown
        accepted.append(code)
        reg = suites.REGISTRY.get(code)
        if reg is None:
            bad.append(f"QUIC resolver accepts code point {code:#06x}, which is not a registered IANA cipher suite")
            continue
        try:
            e = _expect(suites.parse_name(reg))
        except suites.NotDrivable:
            bad.append(f"QUIC resolver accepts {code:#06x} ({reg}) although its name denotes algorithms TLExport cannot resolve")
            continue
        got = {"cipher": getattr(cipher, "__name__", repr(cipher)), "key_len": klen, "aead": 1, "hash": getattr(hfun, "__name__", repr(hfun)), "tag": 16}
        if got != e:
            bad.append(f"QUIC resolver: code point {code:#06x} ({reg}) resolved to {got} (AEAD objects of this path always use a 16-byte tag), name denotes {e}")
    res = {"units": case["hi"] - case["lo"], "classes": [f"quic-{c:04X}" for c in accepted] + [f"quic-rejected-{case['lo']:04x}"], "cls": [case["id"]], "nontrivial": True,
           "mon": {"QuicSession.set_tls_decryptors.contract": case["hi"] - case["lo"]}, "tags": [f"quic-accepted:{len(accepted)}"],
           "sample": {"range": case["id"], "accepted": [f"{c:04X}={suites.REGISTRY.get(c)}" for c in accepted[:6]]}}
    if bad:
        res.update(v="violated", msg="; ".join(bad[:5]))
    else:
        res["v"] = "held"
    return res


def build(tier, seed):
    chunk = 4096
    cases = [{"id": f"codes-{lo:04x}-{lo + chunk - 1:04x}", "lo": lo, "hi": lo + chunk} for lo in range(0, 65536, chunk)]
    cases += [{"id": f"quic-codes-{lo:04x}-{lo + chunk - 1:04x}", "lo": lo, "hi": lo + chunk, "quic": True} for lo in range(0, 65536, chunk)]

    def evalfn(case):
        logging.disable(logging.CRITICAL)
        if case.get("quic"):
            return quic_table(case)
        import tlexport.cipher_suite_parser as csp
        table = getattr(csp, "cipher_suites", None)
        accepted, bad, raised = [], [], 0
        for code in range(case["lo"], case["hi"]):
            for form in (bytes, bytearray) if code % 257 == 0 else (bytes,):
                try:
                    r = csp.split_cipher_suite(form(code.to_bytes(2, "big")) if form is bytes else bytes(form(code.to_bytes(2, "big"))))
                except Exception as ex:
                    raised += 1
                    bad.append(f"code point {code:#06x}: split_cipher_suite raised {ex!r} instead of reporting unsupported")
                    continue
                m = contract(code, r, table)
                if m:
                    bad.append(m)
                if r is not None:
                    accepted.append(code)
        missing = [c for c in suites.SUPPORTED if case["lo"] <= c < case["hi"] and c not in accepted]
        res = {"units": case["hi"] - case["lo"], "classes": [f"{c:04X}" for c in accepted] + [f"rejected-{case['lo']:04x}"],
               "cls": [case["id"]], "nontrivial": True, "mon": {"split_cipher_suite.contract": case["hi"] - case["lo"]},
               "tags": [f"accepted:{len(accepted)}"] + [f"no-longer-accepted:{c:04X}" for c in missing],
               "sample": {"range": case["id"], "accepted": [f"{c:04X}={suites.REGISTRY.get(c)}" for c in accepted[:4]], "rejected": case["hi"] - case["lo"] - len(accepted)}}
        if bad:
            res.update(v="violated", msg="; ".join(bad[:5]) + (f" (+{len(bad) - 5} more)" if len(bad) > 5 else ""))
        else:
            res["v"] = "held"
        return res

    def extra(results):
        acc = sorted({c for r in results for c in (r.get("classes") or []) if not c.startswith("rejected") and not c.startswith("quic-")})
        gone = [f"{c:04X}" for c in suites.SUPPORTED if f"{c:04X}" not in acc]
        return {"accepted_code_points": len(acc), "pinned_supported": len(suites.SUPPORTED), "accepted_set_shrank_vs_pinned": gone,
                "accepted_new_vs_pinned": [c for c in acc if int(c, 16) not in suites.SUPPORTED],
                "quic_resolver_accepts": sorted({c[5:] for r in results for c in (r.get("classes") or []) if c.startswith("quic-") and not c.startswith("quic-rejected")})}

    return dict(cases=cases, evalfn=evalfn, level="exploration", exhaustive=True, min_nontrivial=16,
                rule="all 65 536 two-byte code points, each passed to the real split_cipher_suite and to the QUIC path's own resolver (QuicSession.set_tls_decryptors) under the contract; a class is an "
                     "accepted code point (checked against registry + independent name parser) or a rejected 4096-block; every case is non-trivial",
                assumptions=["registry/iana_tls_cipher_suites.json is a faithful copy of the IANA registry (cross-checked at setup "
                             "against the scapy and dpkt copies)", "the harness's structural name parser"], extra=extra)
