"""C14 - every cipher-suite code point resolves to the parameters its IANA name denotes (exhaustive over 65 536).

Oracle: a contract on the real `tlexport.cipher_suite_parser.split_cipher_suite`, evaluated for every two-byte value:
  accepted (result is not None)  =>  the code point is in the frozen IANA registry copy, the repository's table names it as
                                     the registry does, and bulk cipher class / key length / AEAD-ness / MAC-or-PRF hash / tag
                                     length equal what the independent structural name parser derives from the registry name;
  not accepted                   =>  the call returned None without raising (reported unsupported, nothing guessed).
"""
import logging

from vlib import suites


def _expect(p):
    cipher = {"AES": {"CBC": "AES", "GCM": "AESGCM", "CCM": "AESCCM"}.get(p["mode"]), "CAMELLIA": "Camellia" if p["mode"] == "CBC" else None,
              "3DES": "TripleDES", "IDEA": "IDEA", "RC4": "ARC4", "CHACHA20": "ChaCha20Poly1305"}[p["cipher"]]
    mac = {"sha1": "SHA1", "sha256": "SHA256", "sha384": "SHA384", "md5": "MD5"}[p["mac"] if not p["aead"] else p["prf"]]
    return {"cipher": cipher, "key_len": p["key_len"], "aead": 1 if p["aead"] else 0, "hash": mac, "tag": p["tag_len"] or 16}


def contract(code, result, table):
    """-> None if the contract holds for this code point, else a message"""
    key = code.to_bytes(2, "big")
    if result is None:
        return None
    reg = suites.REGISTRY.get(code)
    if reg is None:
        return f"code point {code:#06x} is accepted but is not a registered IANA cipher suite"
    if table is not None and key in table and table[key] != reg:
        return f"code point {code:#06x} is named {table[key]!r} but IANA registers it as {reg!r}"
    try:
        p = suites.parse_name(reg)
    except suites.NotDrivable:
        return f"code point {code:#06x} ({reg}) is accepted although its name denotes a bulk cipher/MAC TLExport cannot resolve"
    e = _expect(p)
    try:
        got = {"cipher": result["CryptoAlgo"][0].__name__, "key_len": result["KeyLength"], "aead": result["CryptoAlgo"][1],
               "hash": result["MAC"].__name__, "tag": result["TagLength"]}
        mode_aead = result["Mode"][1]
    except Exception as ex:  # malformed result
        return f"code point {code:#06x} ({reg}): result not in the documented shape: {ex!r} {result!r}"
    if got != e:
        return f"code point {code:#06x} ({reg}): resolved to {got}, name denotes {e}"
    if bool(mode_aead) != bool(e["aead"]):
        return f"code point {code:#06x} ({reg}): Mode AEAD flag {mode_aead} but name denotes aead={e['aead']}"
    return None


def quic_table(case):
    """TLExport has a second resolver: QuicSession.set_tls_decryptors maps the suite of a QUIC handshake to (hash, AEAD class, key length); the AEAD objects it
    builds use the library's 16-byte tag.  Same contract, all 65 536 code points: what it resolves must be what the IANA name denotes - incl. the tag length, so a
    *_CCM_8 suite cannot be resolved by this path - everything else must be reported as unknown."""
    from checks.c16 import make_session
    try:
        sess = make_session()
        sess.set_tls_decryptors
    except Exception as ex:       # constructor / method moved (refactoring): this observation point is gone
        return {"v": "inconclusive", "cls": ["quic-table"], "nontrivial": False, "msg": f"QUIC suite resolver not observable: {ex!r}"}
    bad, accepted, unobs = [], [], 0
    for code in range(case["lo"], case["hi"]):
        try:
            sess.cipher = sess.hash_fun = sess.key_length = None
            sess.can_decrypt = True
            sess.keys, sess.decryptors = {}, {}
        except Exception:
            unobs += 1
        try:
            sess.set_tls_decryptors(bytes(32), code.to_bytes(2, "big"))
        except Exception:
            pass                    # no secrets were supplied: what matters is what the suite was resolved to before the keys were looked up
        cipher, hfun, klen = getattr(sess, "cipher", None), getattr(sess, "hash_fun", None), getattr(sess, "key_length", None)
        if cipher is None and hfun is None and klen is None:
            continue                # reported as unknown
        accepted.append(code)
        reg = suites.REGISTRY.get(code)
        if reg is None:
            bad.append(f"QUIC resolver accepts code point {code:#06x}, which is not a registered IANA cipher suite")
            continue
        try:
            e = _expect(suites.parse_name(reg))
        except suites.NotDrivable:
            bad.append(f"QUIC resolver accepts {code:#06x} ({reg}) although its name denotes algorithms TLExport cannot resolve")
            continue
        got = {"cipher": getattr(cipher, "__name__", repr(cipher)), "key_len": klen, "aead": 1, "hash": getattr(hfun, "__name__", repr(hfun)), "tag": 16}
        if got != e:
            bad.append(f"QUIC resolver: code point {code:#06x} ({reg}) resolved to {got} (AEAD objects of this path always use a 16-byte tag), name denotes {e}")
    res = {"units": case["hi"] - case["lo"], "classes": [f"quic-{c:04X}" for c in accepted] + [f"quic-rejected-{case['lo']:04x}"], "cls": [case["id"]], "nontrivial": True,
           "mon": {"QuicSession.set_tls_decryptors.contract": case["hi"] - case["lo"]}, "tags": [f"quic-accepted:{len(accepted)}"],
           "sample": {"range": case["id"], "accepted": [f"{c:04X}={suites.REGISTRY.get(c)}" for c in accepted[:6]]}}
    if bad:
        res.update(v="violated", msg="; ".join(bad[:5]))
    else:
        res["v"] = "held"
    return res


PAIR_FIRST = [0x1301, 0x1302, 0x1303, 0x1304, 0x1305, 0x0a0a, 0xc02f]


def quic_pair(case, seed):
    """The QUIC resolver runs more than once per connection - for the first suite the client offers (0-RTT), then for the one the server selects.  What is in effect
    afterwards must be what the *selected* code point denotes, whatever was resolved before it: a real connection per ordered pair (first offered, selected) must be
    exported exactly (packets are protected with the selected suite's AEAD, so any other resolution exports nothing)."""
    import random
    from vlib import e2e, engine, outparse, quicsynth, scene, tcpcap
    from checks.c02 import check_quic_output
    rng = random.Random(engine.subseed("C14", seed, case["id"]))
    s = quicsynth.random_qspec(rng, napp=rng.choice([2, 4]))
    first, sel = case["first"], case["sel"]
    s.suite = sel
    if first == sel:
        s.offered = (sel,) + tuple(x for x in rng.sample(PAIR_FIRST, 2) if x != sel)
    else:
        s.offered = (first, sel) if rng.random() < 0.5 else (first,) + tuple(x for x in rng.sample(PAIR_FIRST, 2) if x not in (first, sel)) + (sel,)
        s.zero_rtt, s.zero_rtt_before_retry, s.zero_rtt_coalesce = [], 0, False
    # one key update where the history allows it: the next generation's keys are expanded with the selected suite's hash and key length as well
    s.key_updates = (rng.randrange(1, len(s.app)),) if len(s.app) > 1 and case["id"].count("pair0") == 0 or len(s.app) > 1 and (sel == 0x1302 or (first + sel) % 2 == 0) else ()
    qc = quicsynth.build_qconn(s, rng)
    ep = tcpcap.random_ep(rng)
    fl = scene.quic_flow(qc, ep)
    items = scene.stamp(scene.merge([fl], rng, "concat"), rng)
    res, files, argv = e2e.run_capture(scene.capture(items), scene.keylog_text([fl], rng), [])
    out = {"cls": ["quic-pair", f"{first:04X}", f"{sel:04X}"], "classes": [f"quic-pair-{first:04X}-{sel:04X}"], "units": 1, "tags": ["quic-pair"],
           "sample": {"case": case["id"], "offered": [f"{x:04X}" for x in s.offered], "selected": f"{sel:04X}"}, "mon": {"quic.connections_per_offer_pair": 1}}
    fail = e2e.run_failed(res)
    if fail:
        return dict(out, v="inconclusive" if fail.startswith("INCONCLUSIVE") else "violated", msg=fail, files=files)
    msgs, _ = check_quic_output(outparse.Analysis(res.out), qc, ep)
    out["nontrivial"] = bool(qc.expect)
    if msgs:
        return dict(out, v="violated", msg=f"ClientHello offers {[f'{x:04X}' for x in s.offered]}, server selects {sel:04X} ({suites.REGISTRY.get(sel)}): the connection is not "
                                           f"exported as that suite's parameters would export it - {msgs[0][:200]}", files=files)
    return dict(out, v="held")


def tls_conn(case, seed):
    """split_cipher_suite's result is only half of the resolution: Session.generate_keys turns it into the arguments of the record decryptor (bulk class, key / MAC / tag
    / block lengths).  One real connection per (accepted suite, valid version): the parameters the decryptor is constructed with must be what the code point's IANA name
    denotes, and records of several lengths (a sub-block one, one block, many blocks) must be exported exactly - a cipher set up with another block, tag, MAC or key
    length exports nothing or garbage."""
    import random
    from vlib import e2e, engine, monitors, outparse, scene, tcpcap, tlssynth
    rng = random.Random(engine.subseed("C14", seed, case["id"]))
    v, code = case["v"], case["code"]
    name = suites.REGISTRY[code]
    p = suites.parse_name(name)
    bl = p["block"] or 16
    lens = [1, bl - 1, bl, bl + 1, 3 * bl + 5, rng.randrange(0, 700)]
    rng.shuffle(lens)
    app = [("cs"[i % 2] if i < 4 else rng.choice("cs"), rng.randbytes(n)) for i, n in enumerate(lens)]
    spec = tlssynth.Spec(version=v, suite=code, app=app, etm=case["rep"] % 2 == 1, resumed=case["rep"] % 3 == 2, sid_len=[32, 0, 8][case["rep"] % 3])
    conn = tlssynth.build_conn(spec, rng)
    ep = tcpcap.random_ep(rng, sport=443)
    segs = tcpcap.segments(conn.events, ep, tcpcap.make_cutter(rng, rng.choice(["mss", "records", "whole"]), conn.events))
    fl = scene.tls_flow(conn, ep, segs)
    items = scene.stamp(scene.merge([fl], rng, "concat"), rng)
    mon = monitors.TlsStateMonitor()
    res, files, argv = e2e.run_capture(scene.capture(items), scene.keylog_text([fl], rng), [], child_setup=mon.install)
    out = {"cls": ["tls-conn", suites.VNAME[v], f"{code:04X}"], "classes": [f"tls-conn-{suites.VNAME[v]}-{code:04X}"], "units": 1, "tags": ["tls-conn", f"ver:{suites.VNAME[v]}", f"mode:{p['mode']}"],
           "sample": {"case": case["id"], "suite": f"{code:04X} {name}", "version": suites.VNAME[v], "record lengths": lens}, "nontrivial": True}
    fail = e2e.run_failed(res)
    if fail:
        return dict(out, v="inconclusive" if fail.startswith("INCONCLUSIVE") else "violated", msg=fail, files=files)
    msgs = []
    e = _expect(p)
    inits = [x for x in monitors.parse_events(res.events) if x.get("ev") == "init"]
    observed = 0
    for x in inits[:1]:
        # each comparison only when the decryptor exposes the attribute (an attribute that moved is unobservable, not wrong)
        if x.get("bulk") in ("AES", "AESGCM", "AESCCM", "Camellia", "TripleDES", "IDEA", "ARC4", "ChaCha20Poly1305"):      # (a class of another vocabulary is unobservable, not wrong)
            observed += 1
            if x["bulk"] != e["cipher"]:
                msgs.append(f"record decryptor constructed with bulk cipher {x['bulk']}, name denotes {e['cipher']}")
        if x.get("key_len") is not None:
            observed += 1
            if x["key_len"] != e["key_len"]:
                msgs.append(f"record decryptor constructed with key length {x['key_len']}, name denotes {e['key_len']}")
        if p["mode"] == "CBC" and x.get("block") is not None:
            observed += 1
            if x["block"] not in (8 * p["block"], p["block"]):
                msgs.append(f"record decryptor constructed with block length {x['block']}, the cipher {p['cipher']} has blocks of {8 * p['block']} bits")
        if p["aead"] and x.get("tag") is not None:
            observed += 1
            if x["tag"] != e["tag"]:
                msgs.append(f"record decryptor constructed with tag length {x['tag']}, name denotes {e['tag']}")
        if not p["aead"] and x.get("mac_len") is not None:
            observed += 1
            if x["mac_len"] != p["mac_len"]:
                msgs.append(f"record decryptor constructed with MAC length {x['mac_len']}, name denotes {p['mac_len']} ({p['mac']})")
    out["mon"] = {"decryptor.constructor_parameters": observed, "tls.connections_per_suite_version": 1}
    msgs += e2e.check_tls_streams(outparse.Analysis(res.out), conn, ep, None)
    if msgs:
        return dict(out, v="violated", msg=f"{suites.VNAME[v]} {code:04X} {name}: the connection is not handled with the parameters the name denotes - " + "; ".join(msgs[:3]),
                    files=dict(files, argv="\n".join(argv)))
    return dict(out, v="held")


def build(tier, seed):
    chunk = 4096
    cases = [{"id": f"codes-{lo:04x}-{lo + chunk - 1:04x}", "lo": lo, "hi": lo + chunk} for lo in range(0, 65536, chunk)]
    cases += [{"id": f"quic-codes-{lo:04x}-{lo + chunk - 1:04x}", "lo": lo, "hi": lo + chunk, "quic": True} for lo in range(0, 65536, chunk)]
    for r in range(12 if tier == "thorough" else 1):
        cases += [{"id": f"quic-pair{r}-{f:04x}-{s_:04x}", "pair": True, "first": f, "sel": s_} for f in PAIR_FIRST for s_ in (0x1301, 0x1302, 0x1303, 0x1304)]

    mx = suites.matrix()
    for r in range(6 if tier == "thorough" else 1):
        cases += [{"id": f"tls-conn{r}-{suites.VNAME[v]}-{code:04x}", "tls": True, "v": v, "code": code, "rep": r + i} for i, (v, code, _n, _p) in enumerate(mx)]

    def evalfn(case):
        logging.disable(logging.CRITICAL)
        if case.get("tls"):
            return tls_conn(case, seed)
        if case.get("pair"):
            return quic_pair(case, seed)
        if case.get("quic"):
            return quic_table(case)
        import tlexport.cipher_suite_parser as csp
        table = getattr(csp, "cipher_suites", None)
        accepted, bad, raised = [], [], 0
        for code in range(case["lo"], case["hi"]):
            for form in (bytes, bytearray) if code % 257 == 0 else (bytes,):
                try:
                    r = csp.split_cipher_suite(form(code.to_bytes(2, "big")) if form is bytes else bytes(form(code.to_bytes(2, "big"))))
                except Exception as ex:
                    raised += 1
                    bad.append(f"code point {code:#06x}: split_cipher_suite raised {ex!r} instead of reporting unsupported")
                    continue
                m = contract(code, r, table)
                if m:
                    bad.append(m)
                if r is not None:
                    accepted.append(code)
        missing = [c for c in suites.SUPPORTED if case["lo"] <= c < case["hi"] and c not in accepted]
        res = {"units": case["hi"] - case["lo"], "classes": [f"{c:04X}" for c in accepted] + [f"rejected-{case['lo']:04x}"],
               "cls": [case["id"]], "nontrivial": True, "mon": {"split_cipher_suite.contract": case["hi"] - case["lo"]},
               "tags": [f"accepted:{len(accepted)}"] + [f"no-longer-accepted:{c:04X}" for c in missing],
               "sample": {"range": case["id"], "accepted": [f"{c:04X}={suites.REGISTRY.get(c)}" for c in accepted[:4]], "rejected": case["hi"] - case["lo"] - len(accepted)}}
        if bad:
            res.update(v="violated", msg="; ".join(bad[:5]) + (f" (+{len(bad) - 5} more)" if len(bad) > 5 else ""))
        else:
            res["v"] = "held"
        return res

    def extra(results):
        acc = sorted({c for r in results for c in (r.get("classes") or []) if not c.startswith("rejected") and not c.startswith("quic-") and not c.startswith("tls-conn")})
        gone = [f"{c:04X}" for c in suites.SUPPORTED if f"{c:04X}" not in acc]
        return {"accepted_code_points": len(acc), "pinned_supported": len(suites.SUPPORTED), "accepted_set_shrank_vs_pinned": gone,
                "accepted_new_vs_pinned": [c for c in acc if int(c, 16) not in suites.SUPPORTED],
                "tls_connections_per_suite_version": len({c for r in results for c in (r.get("classes") or []) if c.startswith("tls-conn")}),
                "quic_resolver_accepts": sorted({c[5:] for r in results for c in (r.get("classes") or []) if c.startswith("quic-") and not c.startswith("quic-rejected")})}

    return dict(cases=cases, evalfn=evalfn, level="exploration", exhaustive=True, min_nontrivial=16,
                rule="all 65 536 two-byte code points, each passed to the real split_cipher_suite and to the QUIC path's own resolver (QuicSession.set_tls_decryptors) under the contract; for the QUIC path, one real connection per ordered pair (first offered suite, selected suite) exported exactly; and one real TLS connection per (accepted suite, valid version) - 462 combinations - whose record decryptor must be constructed with the bulk cipher, key, block, tag and MAC lengths the name denotes and whose records (sub-block, one block, many blocks) must be exported exactly; a class is an "
                     "accepted code point (checked against registry + independent name parser) or a rejected 4096-block; every case is non-trivial",
                assumptions=["registry/iana_tls_cipher_suites.json is a faithful copy of the IANA registry (cross-checked at setup "
                             "against the scapy and dpkt copies)", "the harness's structural name parser"], extra=extra)
