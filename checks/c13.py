"""C13 - metadata export (-a) only adds packets; application data is unchanged.

Each connection is exported twice, without and with -a.  Oracle:
  TLS   (1) the payload-carrying packets of the run without -a are, per direction, an in-order subsequence of those of the run with -a (same payloads);
        (2) the -a stream of each direction parses, record by record of what the endpoint sent, into: every application plaintext exactly once and in order,
            optionally interleaved with handshake / change-cipher-spec / alert material known to the sender - a type 20/21/22 record verbatim, or the
            plaintext of an encrypted handshake/alert record - and nothing else; (3) the ClientHello and ServerHello records appear verbatim and start and end on
            packet boundaries (packets of their own).
  QUIC  the non-empty -a datagrams are, in order and direction, the sender's per-datagram data: STREAM data with (or without) the CRYPTO data of the same
        datagram in frame order; the STREAM projection equals the run without -a.
"""
import random

from vlib import corpus, e2e, engine, gen, outparse, scene, tcpcap


def parse_meta_stream(stream, events, d, boundaries):
    """-> message or None.  events: the sender's events of direction d, in order."""
    pos = 0
    for e in events:
        if e.kind == "app":
            if stream[pos:pos + len(e.plain)] != e.plain:
                return f"at offset {pos}: expected the {len(e.plain)}-byte application record #{e.poff}, found {stream[pos:pos + 12].hex()}"
            pos += len(e.plain)
            continue
        tls13_inner = e.wire[0] == 0x17 and e.kind in ("ehs", "alert")
        alts = [b""]
        if not tls13_inner:
            alts.append(e.wire)
        if e.plain is not None and e.kind in ("ehs", "alert"):
            alts.append(e.plain)
            # ... or the plaintext wrapped as a record of its real type (the statement fixes the form of the hello records only)
            inner = 21 if e.kind == "alert" else 22
            for ver in (b"\x03\x03", e.wire[1:3]):
                alts.append(bytes([inner]) + ver + len(e.plain).to_bytes(2, "big") + e.plain)
            if not tls13_inner:
                alts += [e.plain + e.wire, e.wire + e.plain]
        hello = e.kind == "hs" and e.wire[5] in (1, 2) and e.wire[0] == 0x16
        if hello:
            alts = [e.wire]
        best = None
        for a in sorted(alts, key=len, reverse=True):
            if stream[pos:pos + len(a)] == a:
                best = a
                break
        if best is None:
            return f"at offset {pos}: {'ClientHello/ServerHello record is not present verbatim' if hello else 'unexpected bytes'} ({stream[pos:pos + 12].hex()}..., sender's next record is {e.kind} {e.wire[:6].hex()})"
        if hello and (pos not in boundaries or pos + len(best) not in boundaries):
            return f"{'ClientHello' if e.wire[5] == 1 else 'ServerHello'} record [{pos},{pos + len(best)}) does not start and end on packet boundaries (shares a packet with other data)"
        pos += len(best)
    if pos != len(stream):
        return f"{len(stream) - pos} bytes after the last record the endpoint sent: {stream[pos:pos + 16].hex()}"
    return None


def build(tier, seed):
    thorough = tier == "thorough"
    cases = [{"id": f"case-{i}", "i": i} for i in range(10000 if thorough else 600)]
    real = corpus.tls_captures()
    for name, path, _, _ in (real if thorough else real[::4]):
        cases.append({"id": f"real-{name}", "real": name})

    def evalfn(case):
        return eval_case(case, random.Random(engine.subseed("C13", seed, case["id"])))

    return dict(cases=cases, evalfn=evalfn, level="exploration", min_nontrivial=60,
                rule="TLS connections over the frozen (version, suite) matrix with random handshake shapes/histories/segmentations, and QUIC connections with random "
                     "features, each exported with and without -a (also combined with -m and -c). Class = (protocol, version, segmentation, options); non-trivial = both "
                     "runs produced output, the connection carried application data and all three comparisons were made",
                assumptions=["reference senders' knowledge of every record / frame they sent"])


def data_packets(an, key):
    return [p.payload for p in an.pkts if (p.src, p.sport, p.dst, p.dport) == key and p.payload]


def is_subseq(a, b):
    it = iter(b)
    return all(any(x == y for y in it) for x in a)


def eval_real(case, rng):
    """a real OpenSSL capture of the repository: nothing is known about its content, so only the 'only adds' half is judged"""
    name, path, keys, _ = next(c for c in corpus.tls_captures() if c[0] == case["real"])
    cap = open(path, "rb").read()
    out = {"cls": ["real", name], "tags": ["real"], "sample": {"case": case["id"], "capture": name}}
    r0, f0, a0 = e2e.run_capture(cap, keys, [])
    r1, f1, a1 = e2e.run_capture(cap, keys, ["-a"])
    for r, tag, f in ((r0, "run without -a", f0), (r1, "run with -a", f1)):
        fail = e2e.run_failed(r)
        if fail:
            return dict(out, v="inconclusive" if fail.startswith("INCONCLUSIVE") else "violated", msg=f"{tag}: {fail}", files=f)
    an0, an1 = outparse.Analysis(r0.out), outparse.Analysis(r1.out)
    msgs = []
    for key in an0.tcp:
        p0, p1 = data_packets(an0, key), data_packets(an1, key)
        if not is_subseq(p0, p1):
            msgs.append(f"{key[1]}->{key[3]}: the {len(p0)} data packets of the run without -a are not an in-order subsequence of the {len(p1)} packets with -a")
    if an1.errors:
        msgs.append("-a output is not well-formed: " + an1.errors[0])
    out["nontrivial"] = any(an0.tcp.values()) and sum(len(v) for v in an1.tcp.values()) > sum(len(v) for v in an0.tcp.values())
    if msgs:
        return dict(out, v="violated", msg=f"real capture {name}: " + "; ".join(msgs[:2]), files=dict(f0, **{"out_plain.pcapng": r0.out, "out_a.pcapng": r1.out}))
    return dict(out, v="held")


def eval_case(case, rng):
    if case.get("real"):
        return eval_real(case, rng)
    quic = rng.random() < 0.35
    fl = gen.random_quic_flow(rng, napp=rng.choice([3, 8])) if quic else gen.random_tls_flow(rng, nmax=10, big=case["i"] % 6 == 2, segkinds=tcpcap.CUT_KINDS, min_records=1, perturb=rng.random() < 0.15,
                                                                                                                compress=case["i"] % 8 == 5)      # a sixth with full-size (2^14) records; an eighth (TLS <= 1.2) with DEFLATE compression: per-direction state that starts with the Finished
    items = scene.stamp(scene.merge([fl], rng, "concat"), rng, rng.choice(["plain", "plain", "zero"] + (["coarse"] if not quic else [])))
    keys = scene.keylog_text([fl], rng)
    extra, mapargs = [], None
    if rng.random() < 0.25:
        mapargs = []
        extra += ["-m"]
    if rng.random() < 0.2:
        extra += ["-c"]
    cap = scene.capture(items)
    r0, f0, a0 = e2e.run_capture(cap, keys, extra)
    r1, f1, a1 = e2e.run_capture(cap, keys, extra + ["-a"])
    out = {"cls": [fl.kind, fl.label.split("-")[1], fl.segkind, "+".join(extra)], "tags": [f"proto:{fl.kind}"],
           "sample": {"case": case["id"], "flow": fl.label, "segmentation": fl.segkind, "args": extra}}
    for r, t in ((r0, "run without -a"), (r1, "run with -a")):
        fail = e2e.run_failed(r)
        if fail:
            return dict(out, v="inconclusive" if fail.startswith("INCONCLUSIVE") else "violated", msg=f"{t}: {fail}", files=dict(f1, argv="\n".join(a1)))
    an0, an1 = outparse.Analysis(r0.out), outparse.Analysis(r1.out)
    kc, ks = gen.flow_keys(fl, mapargs)
    msgs = []
    if quic:
        qc = fl.conn
        got0 = gen.flow_output(an0, fl, mapargs)
        got1 = gen.flow_output(an1, fl, mapargs)
        if got0 != qc.expect:
            return dict(out, v="inconclusive", msg="run without -a is not exact (C02 business)", nontrivial=False)
        if got1 != qc.expect_meta and got1 != qc.expect:
            # tolerate per-datagram choice: with or without the CRYPTO bytes of that datagram
            want = [(g.dir, g.meta, g.stream) for g in qc.dgrams if g.meta]
            j = 0
            ok = True
            for d, meta, stream in want:
                if j < len(got1) and got1[j] == (d, meta):
                    j += 1
                elif stream and j < len(got1) and got1[j] == (d, stream):
                    j += 1
                elif stream:
                    ok = False
                    msgs.append(f"-a output datagram {j}: expected the data of an input datagram of direction {d} ({len(stream)}B stream data, {len(meta)}B with handshake bytes), "
                                f"found {None if j >= len(got1) else (got1[j][0], len(got1[j][1]))}")
                    break
            if ok and j != len(got1):
                msgs.append(f"-a output has {len(got1) - j} datagrams that are neither stream nor handshake data of the connection")
        nontrivial = bool(qc.expect)
    else:
        conn = fl.conn
        m0 = gen.check_flow_exact(an0, fl, mapargs)
        for key, d in ((kc, "c"), (ks, "s")):
            p0, p1 = data_packets(an0, key), data_packets(an1, key)
            if not is_subseq(p0, p1):
                msgs.append(f"{'client' if d == 'c' else 'server'} direction: the {len(p0)} data packets of the run without -a are not an in-order subsequence of the {len(p1)} packets with -a")
            stream = an1.tcp.get(key) or b""
            bounds = {0}
            o = 0
            for p in p1:
                o += len(p)
                bounds.add(o)
            pm = parse_meta_stream(stream, [e for e in conn.events if e.dir == d], d, bounds)
            if pm:
                msgs.append(f"{'client' if d == 'c' else 'server'} -a stream ({len(stream)}B): {pm}")
        nontrivial = len(conn.truth["c"]) + len(conn.truth["s"]) > 0
        if m0 and msgs:
            # neither run exports the connection as sent: C01's business, the comparison of the two runs has no footing
            return dict(out, v="inconclusive", msg="run without -a is not exact (C01 business): " + m0[0], nontrivial=False)
        if m0:
            # with -a every application record is there, exactly and in order - without it they are not: the option changes which application data is exported
            msgs.append("with -a the stream holds every application record the endpoints sent; without it: " + m0[0][:300])
    stray = [p for p in an1.pkts if (p.src, p.sport, p.dst, p.dport) not in (kc, ks) and p.payload]
    if stray:
        msgs.append("-a output contains packets of a conversation that is not the connection's")
    if an1.errors:
        out["tags"].append("malformed-output")
    out["mon"] = {"with_without_pairs": 1, "packets_with_a": len(an1.pkts), "packets_without_a": len(an0.pkts)}
    out["nontrivial"] = nontrivial
    if msgs:
        return dict(out, v="violated", msg=f"{fl.label} {fl.segkind} {extra}: " + "; ".join(msgs[:3]), files=dict(f1, argv="\n".join(a1), **{"out_a.pcapng": r1.out, "out_plain.pcapng": r0.out}))
    return dict(out, v="held")
