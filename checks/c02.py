"""C02 - QUIC v1 STREAM data is exported exactly, datagram by datagram.

Workload: reference QUIC endpoints (vlib.quicsynth) -> UDP datagrams with pairwise distinct timestamps -> real run() in a forked child.
Oracle:   the sequence of non-empty exported UDP payloads (with direction, from source address/port) must equal the sender's list of
          per-datagram STREAM concatenations, in capture order.  In-process monitors: parse_frames result vs. the sender's frame list per
          packet (C17's contract) and reconstructed packet number vs. the true number (C16's contract) in the same runs.
"""
import random

from vlib import e2e, engine, monitors, outparse, quicsynth, scene, tcpcap

OPEN_TRIGGERS = ()      # trigger names of listed open findings kept out of the base class (see KNOWN_FINDINGS.txt)


def quic_expect_keys(ep, mapargs=None):
    sp = e2e.exported_port(ep.sport, mapargs)
    return (ep.cip, ep.cport, ep.sip, sp), (ep.sip, sp, ep.cip, ep.cport)


def check_quic_output(an, qconn, ep, mapargs=None, meta=False):
    kc, ks = quic_expect_keys(ep, mapargs)
    got = []
    stray = []
    for proto, key, ts, payload in an.order:
        if proto == 17 and key == kc:
            got.append(("c", payload))
        elif proto == 17 and key == ks:
            got.append(("s", payload))
        else:
            stray.append((proto, key[1], key[3], len(payload)))
    want = qconn.expect_meta if meta else qconn.expect
    msgs = []
    if got != want:
        n = min(len(got), len(want))
        i = next((k for k in range(n) if got[k] != want[k]), n)
        g = got[i] if i < len(got) else None
        w_ = want[i] if i < len(want) else None
        msgs.append(f"exported {len(got)} datagrams, sender's list has {len(want)}; first difference at index {i}: exported "
                    f"{None if g is None else (g[0], len(g[1]), g[1][:10].hex())} expected {None if w_ is None else (w_[0], len(w_[1]), w_[1][:10].hex())}")
    if stray:
        msgs.append(f"output contains packets that are not the connection's: {stray[:3]}")
    return msgs, got


def build(tier, seed):
    thorough = tier == "thorough"
    cases = []
    # core matrix: suites x CID lengths x pn-length mode x ip version (pairwise-ish by rotation)
    lens = [0, 1, 8, 20]
    k = 0
    for suite in quicsynth.SUITES:
        for cl in lens:
            for sl in lens:
                for mode in ("min", "rand", "4"):
                    if (k % 3 == 0) or thorough:
                        cases.append({"id": f"mx-{suite:04X}-c{cl}-s{sl}-{mode}", "kind": "matrix", "suite": suite, "cl": cl, "sl": sl, "mode": mode, "v6": k % 2 == 1})
                    k += 1
    for i in range(100000 if thorough else 700):
        cases.append({"id": f"rnd-{i}", "kind": "random", "i": i})

    def evalfn(case):
        return eval_case(case, seed)

    return dict(cases=cases, evalfn=evalfn, level="exploration", min_nontrivial=100,
                rule="core matrix: 4 suites x client/server CID length {0,1,8,20}^2 x packet-number length mode {min,random,4} x IPv4/IPv6; random "
                     "part: offered-suite order, CID lengths 0..20, packet-number starts up to 2^31 and gaps, coalescing (Initial+Handshake, Handshake+1-RTT, "
                     "Initial+0-RTT), frame mixes of all types around 0..4 STREAM frames on 1..3 streams with all OFF/LEN/FIN combinations and varint widths, "
                     "ClientHello cut into 1..6 CRYPTO frames in any order over 1..3 packets, Retry, 0-RTT, NEW_CONNECTION_ID switch (either side), 0..3 key "
                     "updates, session tickets in 1-RTT CRYPTO frames. Class = (suite, offered order, CID lengths, pn mode, features); non-trivial = at least one datagram "
                     "carried STREAM data and the exported sequence was compared",
                assumptions=["reference QUIC sender implements RFC 9000/9001 packet protection (independent of tlexport)"])


def make_case(case, seed):
    rng = random.Random(engine.subseed("C02", seed, case["id"]))
    if case["kind"] == "matrix":
        s = quicsynth.random_qspec(rng, napp=rng.choice([4, 8, 12]), avoid=OPEN_TRIGGERS)
        s.suite = case["suite"]
        s.offered = (case["suite"], 0x1301 if case["suite"] != 0x1301 else 0x1302)
        s.c_scid_len, s.s_scid_len, s.pn_len_mode = case["cl"], case["sl"], case["mode"]
        if not s.s_scid_len:
            s.new_cid_at = -1
        if not s.c_scid_len:
            s.client_new_cid_at = -1
        v6 = case["v6"]
    else:
        s = quicsynth.random_qspec(rng, avoid=OPEN_TRIGGERS)
        v6 = rng.random() < 0.4
    grease = rng.random() < 0.15
    if grease:
        s.grease = rng.choice([0.3, 1.0])
    qc = quicsynth.build_qconn(s, rng)
    ep = tcpcap.random_ep(rng, v6=v6, sport=rng.choice([443, 443, 443, 4433, 8443, 50000]))
    fl = scene.quic_flow(qc, ep)
    items = scene.stamp(scene.merge([fl], rng, "concat"), rng, rng.choice(scene.TS_STYLES))
    extra = ["-g"] if grease else []
    mapargs = None
    r = rng.random()
    if r < 0.2:
        mapargs = []
        extra += ["-m"]
    elif r < 0.3:
        mapargs = [f"{ep.sport}:{tcpcap.map_target(rng)}"]
        extra += ["-m"] + mapargs
    feats = [f for f, on in (("retry", s.retry), ("0rtt", bool(s.zero_rtt)), ("ku", bool(qc.info["key_updates_done"])), ("ncid", s.new_cid_at >= 0),
                             ("cncid", s.client_new_cid_at >= 0), ("chsplit", len(s.ch_split) > 0), ("chreorder", tuple(s.ch_order) != tuple(sorted(s.ch_order))),
                             ("half", s.server_half_rtt), ("coal1", s.coalesce_1rtt_with_hs), ("grease", grease), ("cidprefix", bool(s.new_cid_prefix))) if on]
    pos = "first" if s.offered[0] == s.suite else ("grease-first" if s.offered[0] == 0x0a0a else "later")
    cls = [f"{s.suite:04X}", pos, s.c_scid_len, s.s_scid_len, s.pn_len_mode, "v6" if ep.v6 else "v4", "+".join(feats)]
    return dict(rng=rng, spec=s, qc=qc, ep=ep, items=items, flows=[fl], extra=extra, mapargs=mapargs, cls=cls, feats=feats)


def eval_case(case, seed):
    c = make_case(case, seed)
    qc, ep = c["qc"], c["ep"]
    if engine.subseed("C02-nano", seed, case["id"]) % 8 == 0:
        # a nanosecond capture clock (if_tsresol 9, what dumpcap writes on Linux): datagrams with distinct timestamps that share a microsecond are still different
        # datagrams.  Steps of >= 300 ns keep the stamps distinct even as double-precision seconds at today's epoch (resolution 238 ns)
        from fractions import Fraction
        t = Fraction(1700000000 * 10 ** 6 + c["rng"].randrange(10 ** 9))       # (a present-day epoch: beyond 2^31 s a double only resolves 477 ns)
        for it in c["items"]:
            t += Fraction(c["rng"].choice([300, 450, 700, 1300, 250000]), 1000)
            it.ts = t
        cap = scene.capture(c["items"], tsresol=9)
        c["feats"].append("nano")
    else:
        cap = scene.capture(c["items"])
    keys = scene.keylog_text(c["flows"], c["rng"], decoys=c["rng"].random() < 0.35)
    mon = monitors.QuicMonitor()
    res, files, argv = e2e.run_capture(cap, keys, c["extra"], child_setup=mon.install)
    out = {"cls": c["cls"], "nontrivial": len(qc.expect) > 0, "tags": [f"suite:{c['cls'][0]}"] + [f"feat:{f}" for f in c["feats"]] + [f"cid:{c['cls'][2]}/{c['cls'][3]}"],
           "sample": {"case": case["id"], "spec": quicsynth.describe(c["spec"]), "endpoints": ep.describe(), "datagrams": len(qc.dgrams),
                      "expected_output_datagrams": len(qc.expect), "args": c["extra"]}}
    fail = e2e.run_failed(res)
    if fail:
        if fail.startswith("INCONCLUSIVE"):
            return dict(out, v="inconclusive", msg=fail)
        return dict(out, v="violated", msg=fail, files=dict(files, argv="\n".join(argv), stderr=res.stderr))
    an = outparse.Analysis(res.out)
    msgs, got = check_quic_output(an, qc, ep, c["mapargs"])
    mmsgs, mcount = mon.verdict(res.events, qc)
    msgs += mmsgs
    out["mon"] = mcount
    if an.errors:
        out["tags"].append("malformed-output")
    if msgs:
        return dict(out, v="violated", msg=f"suite {c['cls'][0]} offered {c['cls'][1]} cids {c['cls'][2]}/{c['cls'][3]} {c['cls'][6]}: " + "; ".join(msgs[:3]),
                    files=dict(files, argv="\n".join(argv), **{"out.pcapng": res.out, "stderr": res.stderr, "stdout": res.stdout}))
    return dict(out, v="held")
