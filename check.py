#!/venv/bin/python
"""Entry point of every check:  check.py <ID> [--tier quick|thorough] [--replay DIR]

Honours VERIF_SEED (integer) and VERIF_TIER.  Exit 0: held on everything explored (KNOWN-FINDING lines for listed open
findings); exit 1 + 'VIOLATION property=<id> replay=<path>': a violation not listed; exit 2: inconclusive.
"""
import argparse
import importlib
import json
import os
import sys
import time

os.environ.setdefault("PYTHONHASHSEED", "0")
HERE = os.path.dirname(os.path.abspath(__file__))
sys.path.insert(0, HERE)
DEPS = os.path.join(HERE, ".deps")
if os.path.isdir(DEPS):
    sys.path.append(DEPS)


def main():
    ap = argparse.ArgumentParser()
    ap.add_argument("prop")
    ap.add_argument("--tier", default=os.environ.get("VERIF_TIER") or "quick", choices=["quick", "thorough"])
    ap.add_argument("--replay")
    ap.add_argument("--only", help="comma separated case-id substrings (debugging)")
    a = ap.parse_args()
    prop = a.prop.upper()
    t0 = time.time()
    from vlib import engine
    seed = engine.seed_from_env()
    mod = importlib.import_module("checks." + prop.lower())
    if a.replay:
        case = json.load(open(os.path.join(a.replay, "case.json")))["case"]
        spec = mod.build(case.get("_tier", a.tier), case.get("_seed", seed))
        res = spec["evalfn"](case)
        res.pop("files", None)
        print(json.dumps(engine._jsonable(res), indent=1)[:6000])
        if res.get("v") in ("violated", "known"):
            print(f"VIOLATION property={prop} replay={a.replay}")
            return 1
        return 0 if res.get("v") == "held" else 2
    spec = mod.build(a.tier, seed)
    cases = spec["cases"]
    for c in cases:
        c.setdefault("_tier", a.tier)
        c.setdefault("_seed", seed)
    if a.only:
        keys = a.only.split(",")
        cases = [c for c in cases if any(k in str(c["id"]) for k in keys)]
    ids = [c["id"] for c in cases]
    assert len(ids) == len(set(ids)), "duplicate case ids"
    results, dead = engine.run_cases(prop, cases, spec["evalfn"], budget_s=spec.get("budget_s"))
    extra = spec["extra"](results) if spec.get("extra") else None
    return engine.finish(prop, a.tier, seed, spec["level"], results, dead, t0, spec["rule"],
                         min_nontrivial=spec.get("min_nontrivial", 2), assumptions=spec.get("assumptions", ()), extra=extra,
                         exhaustive=spec.get("exhaustive", False), expected_cases=len(cases))


if __name__ == "__main__":
    sys.exit(main())
